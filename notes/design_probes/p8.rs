use tyme4rs::tyme::solar::*;
use tyme4rs::tyme::jd::*;
use tyme4rs::tyme::Tyme;
use std::time::Instant;
use std::panic;
struct Rng(u64); impl Rng { fn next(&mut self)->u64{ self.0^=self.0<<13; self.0^=self.0>>7; self.0^=self.0<<17; self.0 } fn range(&mut self, a:i64,b:i64)->i64{ a + (self.next()%((b-a+1) as u64)) as i64 } }
fn abs_sec(t:&SolarTime)->i64 { let j=(t.get_solar_day().get_julian_day().get_day()+0.5) as i64; j*86400 + (t.get_hour()*3600+t.get_minute()*60+t.get_second()) as i64 }
fn main() {
  panic::set_hook(Box::new(|_| {}));
  let t0=Instant::now(); let mut rng=Rng(0x9E3779B97F4A7C15);
  let lo = abs_sec(&SolarTime::from_ymd_hms(1,1,1,0,0,0)); let hi = abs_sec(&SolarTime::from_ymd_hms(9999,12,31,23,59,59));
  let mut issues=vec![]; let mut n=0u64;
  for it in 0..300000 {
    let a = if it%4==0 { let base=[abs_sec(&SolarTime::from_ymd_hms(1582,10,4,23,59,59)), abs_sec(&SolarTime::from_ymd_hms(2000,2,29,0,0,0)), abs_sec(&SolarTime::from_ymd_hms(1900,12,31,23,59,59))][(it/4)%3]; base + rng.range(-100000,100000) } else { rng.range(lo,hi) };
    let jd_day = a.div_euclid(86400); let sod=a.rem_euclid(86400);
    let d = JulianDay::from_julian_day(jd_day as f64 - 0.5).get_solar_day();
    let t = SolarTime::from_ymd_hms(d.get_year(), d.get_month(), d.get_day(), (sod/3600) as usize, ((sod%3600)/60) as usize, (sod%60) as usize);
    let nn = match it%5 {0=>rng.range(-100,100),1=>rng.range(-100000,100000),2=>rng.range(-1_000_000_000,1_000_000_000), 3=>[0,1,-1,60,-60,3600,-3600,86400,-86400][(it/5)%9], _=>rng.range(-40_000_000,40_000_000)};
    if a+nn<lo || a+nn>hi { continue; }
    let r=panic::catch_unwind(|| { let mut iss=vec![];
      let x=t.next(nn as isize); if abs_sec(&x)!=a+nn { iss.push(format!("{} next({nn}) -> {} off by {}", t, x, abs_sec(&x)-(a+nn))); }
      if x.subtract(t)!=nn as isize { iss.push(format!("subtract {} {}", x.subtract(t), nn)); }
      if x.is_after(t)!=(nn>0) || x.is_before(t)!=(nn<0) { iss.push("order".into()); }
      let back = t.get_julian_day().get_solar_time(); if back!=t { iss.push(format!("jd roundtrip {} -> {}", t, back)); }
      iss });
    n+=1; match r { Err(_)=>issues.push(format!("PANIC {} next {}", t, nn)), Ok(v)=>issues.extend(v)}
  }
  println!("clock n={n} issues={} t={:?}", issues.len(), t0.elapsed()); for i in issues.iter().take(10){println!("  {i}");}
  // fractional JDs near carry boundaries
  let mut issues=vec![]; let mut n=0u64;
  let mut dates=vec![(2023,1,31),(2023,12,31),(2024,2,29),(1582,10,4),(1582,10,31),(1,12,31),(9999,12,30),(2000,6,30)];
  for _ in 0..2000 { let y=rng.range(1,9999); let m=rng.range(1,12); let dc=SolarMonth::from_ym(y as isize,m as usize).get_day_count() as i64; if y==1582&&m==10 {continue;} let d= if rng.range(0,1)==0 {dc} else {rng.range(1,dc)}; if y==9999&&m==12&&d==31 {continue;} dates.push((y,m,d)); }
  for (y,m,d) in dates { for (hh,mm,ss) in [(23,59,59),(0,59,59),(11,59,59),(12,0,0),(5,30,29)] { for fr in [-0.6f64,-0.5,-0.49,-0.1,0.0,0.1,0.4,0.49,0.499,0.5,0.501,0.6,0.7,0.9,0.99] {
    let base = SolarTime::from_ymd_hms(y as isize,m as usize,d as usize,hh,mm,ss);
    let jd = base.get_julian_day().get_day() + fr/86400.0;
    let r=panic::catch_unwind(|| { let t=JulianDay::from_julian_day(jd).get_solar_time(); let got=abs_sec(&t) as f64; let want=(abs_sec(&base) as f64)+fr; (t, (got-want).abs()) });
    n+=1; match r { Err(_)=>issues.push(format!("PANIC jd {} ({y}-{m}-{d} {hh}:{mm}:{ss} +{fr})", jd)), Ok((t,e))=> if e>0.5+2e-4 { issues.push(format!("{y}-{m}-{d} {hh}:{mm}:{ss}+{fr} -> {} err {e}", t)); } }
  }}}
  println!("jd n={n} issues={} t={:?}", issues.len(), t0.elapsed()); for i in issues.iter().take(10){println!("  {i}");}
}
