use tyme4rs::tyme::solar::*;
use tyme4rs::tyme::jd::*;
use tyme4rs::tyme::Tyme;
use std::time::Instant;

// independent civil calendar model
fn is_leap(y: i64) -> bool { if y < 1582 || y == 1582 { y % 4 == 0 } else { (y % 4 == 0 && y % 100 != 0) || y % 400 == 0 } }
fn mlen(y: i64, m: i64) -> i64 { match m { 1|3|5|7|8|10|12 => 31, 4|6|9|11 => 30, _ => if is_leap(y) {29} else {28} } }
fn exists(y: i64, m: i64, d: i64) -> bool {
  if y < 1 || y > 9999 || m < 1 || m > 12 || d < 1 || d > mlen(y,m) { return false; }
  if y == 1582 && m == 10 && d > 4 && d < 15 { return false; }
  true
}
fn main() {
  let t0 = Instant::now();
  // JDN of 0001-01-01 Julian = 1721424
  let mut jdn: i64 = 1721424;
  let mut n = 0u64; let mut bad = 0u64;
  let mut prev: Option<SolarDay> = None;
  for y in 1..=9999i64 { for m in 1..=12i64 { for d in 1..=31i64 {
    if !exists(y,m,d) { continue; }
    let sd = SolarDay::from_ymd(y as isize, m as usize, d as usize);
    let jd = sd.get_julian_day().get_day();
    if jd != jdn as f64 - 0.5 { bad += 1; if bad < 10 { println!("jd mismatch {y}-{m}-{d}: {jd} vs {}", jdn as f64 - 0.5); } }
    let back = JulianDay::from_julian_day(jd).get_solar_day();
    if back.get_year() != y as isize || back.get_month() != m as usize || back.get_day() != d as usize { bad += 1; if bad < 10 { println!("roundtrip mismatch {y}-{m}-{d} -> {}", back); } }
    if let Some(p) = prev { let nx = p.next(1); if nx != sd { bad += 1; if bad < 10 { println!("next mismatch {} -> {}", p, nx);} } }
    prev = Some(sd);
    jdn += 1; n += 1;
  }}}
  println!("dates={n} bad={bad} elapsed={:?}", t0.elapsed());
}
