// C06/C08/C07/C15 day-level scan with oracle derived from term days
use tyme4rs::tyme::solar::*;
use tyme4rs::tyme::Tyme;
use tyme4rs::tyme::Culture;
use std::time::Instant;
use std::panic;
fn main() {
  panic::set_hook(Box::new(|_| {}));
  let t0=Instant::now();
  // precompute term days for years 0..=10000 (index 0..23): day number (JDN at noon)
  let args: Vec<String> = std::env::args().collect();
  let y0: isize = args.get(1).map(|s| s.parse().unwrap()).unwrap_or(1);
  let y1: isize = args.get(2).map(|s| s.parse().unwrap()).unwrap_or(9999);
  let mut terms: Vec<(i64, isize, usize)> = vec![]; // (jdn, year, index)
  for y in y0..=(y1+1) { for i in 0..24 { let t = SolarTerm::from_index(y, i); let jd = t.get_julian_day().get_day(); let jdn = (jd+0.5).floor() as i64; terms.push((jdn,y,i as usize)); } }
  // monotonic?
  let mut bad=0; for w in terms.windows(2) { if w[1].0 <= w[0].0 { bad+=1; } let d=w[1].0-w[0].0; if d<14||d>16 {bad+=1;} }
  println!("terms={} nonmono/spacing bad={} t={:?}", terms.len(), bad, t0.elapsed());
  let first = SolarDay::from_ymd(y0.max(1),1,1); let last = SolarDay::from_ymd(y1.min(9999),12,31);
  let total = last.subtract(first);
  let mut ti=0usize; let mut mism=0u64; let mut ex=vec![]; let mut n=0u64; let mut maxidx=0usize;
  let mut ymism=0u64; let mut mmism=0u64; let mut dmism=0u64; let mut panics=0u64;
  for k in 0..=total {
    let sd = first.next(k);
    let jdn = (sd.get_julian_day().get_day()+0.5) as i64;
    while ti+1 < terms.len() && terms[ti+1].0 <= jdn { ti+=1; }
    if terms[ti].0 > jdn { continue; } // before first term of y0
    let r = panic::catch_unwind(|| { let td = sd.get_term_day(); let t=td.get_solar_term(); (t.get_year(), t.get_index(), td.get_day_index()) });
    match r { Err(_) => {panics+=1;}, Ok((ty,tidx,di)) => {
      n+=1; if di>maxidx {maxidx=di;}
      if (ty,tidx,di as i64) != (terms[ti].1, terms[ti].2, jdn-terms[ti].0) { mism+=1; if ex.len()<10 { ex.push(format!("{} got ({},{},{}) want ({},{},{})", sd, ty,tidx,di, terms[ti].1, terms[ti].2, jdn-terms[ti].0)); } }
    }}
    // C08 oracle: year pillar = (Y-4) mod 60 where Y= civil year if jdn >= lichun(Y) else Y-1 ; month index = number of jie passed
    let r2 = panic::catch_unwind(|| { let scd = sd.get_sixty_cycle_day(); (scd.get_year().get_index(), scd.get_month().get_index(), scd.get_sixty_cycle().get_index()) });
    if let Ok((yi, mi, di)) = r2 {
      let (tj, tyear, tidx) = terms[ti];
      // sexagenary year: term year tyear (year in which term index counted; index0 = dongzhi of prev dec). year Y starts at lichun idx 3 of year Y.
      let sy = if tidx >= 3 { tyear } else { tyear - 1 };
      let want_y = (sy - 4).rem_euclid(60) as usize;
      // month number since Yin month: jie idx 3,5,..,23 -> months 0..10 ; idx 1 -> month 11 (of prev sy), idx 0 -> month 10 (zi month continues from idx 23)
      let mnum: isize = if tidx >= 3 { ((tidx as isize)-3)/2 } else if tidx>=1 { 11 } else { 10 };
      let ystem = (sy - 4).rem_euclid(10);
      let mstem = ((ystem % 5) * 2 + 2 + mnum).rem_euclid(10);
      let mbranch = (2 + mnum).rem_euclid(12);
      // combine to 60 index
      let mut want_m = 0; for c in 0..60 { if c%10==mstem as usize && c%12==mbranch as usize { want_m=c; } }
      let want_d = (jdn + 49).rem_euclid(60) as usize;
      let _=tj;
      if yi!=want_y { ymism+=1; if ex.len()<30 { ex.push(format!("YEAR {} got {} want {}", sd, yi, want_y)); } }
      if mi!=want_m { mmism+=1; if ex.len()<30 { ex.push(format!("MONTH {} got {} want {}", sd, mi, want_m)); } }
      if di!=want_d { dmism+=1; }
    } else { panics+=1; }
  }
  println!("days={n} term mism={mism} maxidx={maxidx} ymism={ymism} mmism={mmism} dmism={dmism} panics={panics} t={:?}", t0.elapsed());
  for e in ex { println!("  {e}"); }
}
