use tyme4rs::tyme::solar::*;
use tyme4rs::tyme::lunar::*;
use tyme4rs::tyme::sixtycycle::*;
use tyme4rs::tyme::Tyme;
use tyme4rs::tyme::Culture;
use std::panic;
struct Rng(u64); impl Rng { fn next(&mut self)->u64{ self.0^=self.0<<13; self.0^=self.0>>7; self.0^=self.0<<17; self.0 } fn range(&mut self, a:i64,b:i64)->i64{ a + (self.next()%((b-a+1) as u64)) as i64 } }
fn laws<T: Tyme + Clone, K: PartialEq + std::fmt::Debug>(name:&str, x:&T, key: &dyn Fn(&T)->K, a:isize, b:isize, issues:&mut Vec<String>) {
  let r=panic::catch_unwind(panic::AssertUnwindSafe(|| { let mut iss=vec![];
    if key(&x.next(0))!=key(x) { iss.push(format!("{name} {:?} next(0) -> {:?}", key(x), key(&x.next(0)))); }
    let ab=x.next(a).next(b); let s=x.next(a+b); if key(&ab)!=key(&s) { iss.push(format!("{name} {:?} next({a}).next({b}) {:?} != next({}) {:?}", key(x), key(&ab), a+b, key(&s))); }
    let inv=x.next(a).next(-a); if key(&inv)!=key(x) { iss.push(format!("{name} {:?} next({a}).next(-{a}) -> {:?}", key(x), key(&inv))); }
    iss }));
  match r { Ok(v)=>issues.extend(v), Err(_)=>issues.push(format!("{name} {:?} PANIC a={a} b={b}", key(x))) }
}
fn main(){
  panic::set_hook(Box::new(|_| {}));
  let mut rng=Rng(0xDEADBEEFCAFEF00D); let mut issues=vec![];
  for it in 0..20000 {
    let y = if it%4==0 { rng.range(40,60) } else { rng.range(300,9700) } as isize;
    let small=[0isize,1,-1,2,-2,12,-12,13,-13,24,-24,60,-60][rng.range(0,12) as usize]; let a= if it%2==0 {small} else {rng.range(-200,200) as isize}; let b=rng.range(-200,200) as isize;
    laws("SolarMonth",&SolarMonth::from_ym(y,rng.range(1,12) as usize),&|m:&SolarMonth|(m.get_year(),m.get_month()),a,b,&mut issues);
    laws("SolarSeason",&SolarSeason::from_index(y,rng.range(0,3) as usize),&|m:&SolarSeason|(m.get_year(),m.get_index()),a,b,&mut issues);
    laws("SolarHalfYear",&SolarHalfYear::from_index(y,rng.range(0,1) as usize),&|m:&SolarHalfYear|(m.get_year(),m.get_index()),a,b,&mut issues);
    laws("SolarTerm",&SolarTerm::from_index(y,rng.range(0,23) as isize),&|m:&SolarTerm|(m.get_year(),m.get_index()),a,b,&mut issues);
    let ly=LunarYear::from_year(y); let lm=ly.get_leap_month() as isize; let mut mm=rng.range(1,12) as isize; if lm>0 && rng.range(0,2)==0 {mm=-lm;}
    laws("LunarMonth",&LunarMonth::from_ym(y,mm),&|m:&LunarMonth|(m.get_year(),m.get_month_with_leap()),a,b,&mut issues);
    laws("SixtyCycleMonth",&SixtyCycleMonth::from_index(y,rng.range(0,11) as isize),&|m:&SixtyCycleMonth|(m.get_sixty_cycle_year().get_year(),m.get_sixty_cycle().get_index()),a,b,&mut issues);
    if it%10==0 {
      let d=rng.range(1,28) as usize; let ld=LunarDay::from_ymd(y,mm,d);
      laws("LunarDay",&ld,&|m:&LunarDay|(m.get_year(),m.get_month(),m.get_day()),a*7,b*5,&mut issues);
      let lh=LunarHour::from_ymd_hms(y,mm,d,rng.range(0,23) as usize,rng.range(0,59) as usize,rng.range(0,59) as usize);
      laws("LunarHour",&lh,&|m:&LunarHour|(m.get_year(),m.get_month(),m.get_day(),m.get_hour(),m.get_minute(),m.get_second()),a,b,&mut issues);
      let w=LunarWeek::from_ym(y,mm,rng.range(0,3) as usize,rng.range(0,6) as usize);
      laws("LunarWeek",&w,&|m:&LunarWeek|{let f=m.get_first_day(); (f.get_year(),f.get_month(),f.get_day(),m.get_start().get_index())},a,b,&mut issues);
      let sw=SolarWeek::from_ym(y,rng.range(1,12) as usize,rng.range(0,3) as usize,rng.range(0,6) as usize);
      laws("SolarWeek",&sw,&|m:&SolarWeek|{let f=m.get_first_day(); (f.get_year(),f.get_month(),f.get_day(),m.get_start().get_index())},a,b,&mut issues);
    }
  }
  println!("issues={}", issues.len()); for i in issues.iter(){println!("  {i}");}
  // near year 0/-1 for sixty cycle month
  let mut issues=vec![];
  for y in -1..=1isize { for i in 0..12isize { for a in [-13isize,-12,-1,0,1,12,13] { let ty=(y*12+i+a).div_euclid(12); if ty< -1 {continue;} laws("SCM0",&SixtyCycleMonth::from_index(y,i),&|m:&SixtyCycleMonth|(m.get_sixty_cycle_year().get_year(),m.get_sixty_cycle().get_index()),a,0,&mut issues); } } }
  println!("near-zero issues={}", issues.len()); for i in issues.iter().take(10){println!("  {i}");}
}
