use tyme4rs::tyme::lunar::*;
use tyme4rs::tyme::Tyme;
use std::time::Instant;
fn main() {
  let t0=Instant::now();
  let mut m = LunarMonth::from_ym(0, 1);
  let mut n=0u64; let mut issues=vec![];
  let mut ystart = m.get_first_julian_day().get_day(); let mut ysum=0usize; let mut ycount=0usize;
  loop {
    let nx = if m.get_year()==9999 && m.get_month()==12 { None } else { Some(m.next(1)) };
    let dc = m.get_day_count();
    if dc!=29 && dc!=30 { issues.push(format!("dc {}:{} = {}", m.get_year(), m.get_month_with_leap(), dc)); }
    ysum+=dc; ycount+=1; n+=1;
    match nx { None=>break, Some(x) => {
      let gap = x.get_first_julian_day().get_day() - m.get_first_julian_day().get_day();
      if gap != dc as f64 { issues.push(format!("tile {}:{} -> {}:{} gap {} dc {}", m.get_year(), m.get_month_with_leap(), x.get_year(), x.get_month_with_leap(), gap, dc)); }
      let back = x.next(-1);
      if back != m { issues.push(format!("fwdback {}:{} -> {}:{} -> {}:{}", m.get_year(), m.get_month_with_leap(), x.get_year(), x.get_month_with_leap(), back.get_year(), back.get_month_with_leap())); }
      if x.get_year()!=m.get_year() {
        let ly = m.get_lunar_year();
        let dist = x.get_first_julian_day().get_day()-ystart;
        let lm = ly.get_leap_month();
        let okc = if lm>0 {13} else {12};
        if ycount!=okc || ly.get_month_count()!=okc || ly.get_months().len()!=okc { issues.push(format!("year {} count {} vs {}", ly.get_year(), ycount, okc)); }
        if ysum as f64 != dist || ly.get_day_count()!=ysum { issues.push(format!("year {} sum {} dist {} daycount {}", ly.get_year(), ysum, dist, ly.get_day_count())); }
        let okl = if lm>0 { (383..=385).contains(&ysum) } else { (353..=355).contains(&ysum) };
        if !okl { issues.push(format!("year {} len {} leap {}", ly.get_year(), ysum, lm)); }
        ystart = x.get_first_julian_day().get_day(); ysum=0; ycount=0;
      }
      m=x; } }
  }
  println!("months={n} issues={} elapsed={:?}", issues.len(), t0.elapsed());
  for i in issues.iter().take(60) { println!("  {i}"); }
}
