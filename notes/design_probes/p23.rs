use tyme4rs::tyme::solar::*;
use tyme4rs::tyme::eightchar::*;
use tyme4rs::tyme::eightchar::provider::*;
use tyme4rs::tyme::enums::*;
use tyme4rs::tyme::{Tyme,Culture};
use std::panic;
struct Rng(u64); impl Rng { fn next(&mut self)->u64{ self.0^=self.0<<13; self.0^=self.0>>7; self.0^=self.0<<17; self.0 } fn range(&mut self, a:i64,b:i64)->i64{ a + (self.next()%((b-a+1) as u64)) as i64 } }
fn leap(y:i64)->bool{ if y<=1582 {y%4==0} else {(y%4==0&&y%100!=0)||y%400==0} }
fn mlen(y:i64,m:i64)->i64{ match m {1|3|5|7|8|10|12=>31,4|6|9|11=>30,_=>if leap(y){29}else{28}} }
// nominal addition; returns None if landing in the 1582-10 gap region (nominal day>4 in 1582-10 handled by caller)
fn add(y:i64,mo:i64,d:i64,h:i64,mi:i64,s:i64, ay:i64,am:i64,ad:i64,ah:i64,ami:i64)->(i64,i64,i64,i64,i64,i64){
  let mut mi2=mi+ami; let mut h2=h+ah; let mut d2=d+ad; h2+=mi2/60; mi2%=60; d2+=h2/24; h2%=24;
  let mut tm=(y+ay)*12+(mo-1)+am; let mut yy=tm/12; let mut mm=tm%12+1;
  loop { let l=mlen(yy,mm); if d2<=l {break;} d2-=l; tm+=1; yy=tm/12; mm=tm%12+1; }
  (yy,mm,d2,h2,mi2,s)
}
fn main(){ panic::set_hook(Box::new(|_| {}));
  let mut rng=Rng(0xABCDEF0123456789); let mut iss=vec![]; let mut n=0; let mut gap=0;
  let provs: Vec<(&str, Box<dyn ChildLimitProvider>)> = vec![("default",Box::new(DefaultChildLimitProvider::new())),("china95",Box::new(China95ChildLimitProvider::new())),("sect1",Box::new(LunarSect1ChildLimitProvider::new())),("sect2",Box::new(LunarSect2ChildLimitProvider::new()))];
  for it in 0..30000 {
    let y= if it%4==0 { rng.range(1568,1584) } else { rng.range(2,9985) } as isize; let m=rng.range(1,12) as usize; let dc=SolarMonth::from_ym(y,m).get_day_count(); let mut d=rng.range(1,dc as i64) as usize; if y==1582&&m==10&&d>4 {d+=10;}
    let (h,mi,s)=(rng.range(0,23) as usize, rng.range(0,59) as usize, rng.range(0,59) as usize);
    let t=SolarTime::from_ymd_hms(y,m,d,h,mi,s);
    for g in [Gender::MAN, Gender::WOMAN] {
      let r=panic::catch_unwind(|| { let cl=ChildLimit::from_solar_time(t,g); (cl.get_year_count() as i64,cl.get_month_count() as i64,cl.get_day_count() as i64,cl.get_hour_count() as i64,cl.get_minute_count() as i64, cl.get_end_time(), cl.is_forward(), cl.get_eight_char().get_month().get_index() as i64, cl.get_eight_char().get_hour().get_index() as i64, cl.get_start_decade_fortune().get_sixty_cycle().get_index() as i64, cl.get_start_decade_fortune().next(3).get_sixty_cycle().get_index() as i64, cl.get_start_decade_fortune().get_start_age(), cl.get_start_decade_fortune().next(3).get_start_age(), cl.get_start_fortune().get_sixty_cycle().get_index() as i64, cl.get_start_fortune().next(5).get_sixty_cycle().get_index() as i64, cl.get_start_fortune().get_sixty_cycle_year().get_year(), cl.get_start_fortune().next(5).get_age()) });
      let (ey,em,ed,eh,emi,es);
      n+=1;
      match r { Err(_)=>{ iss.push(format!("PANIC {} {:?}", t,g)); }, Ok((ay,am,ad,ah,ami,e,fwd,mp,hp,df0,df3,a0,a3,f0,f5,fy0,fa5))=>{
        let w=add(y as i64,m as i64,d as i64,h as i64,mi as i64,s as i64,ay,am,ad,ah,ami); ey=w.0;em=w.1;ed=w.2;eh=w.3;emi=w.4;es=w.5;
        let got=(e.get_year() as i64,e.get_month() as i64,e.get_day() as i64,e.get_hour() as i64,e.get_minute() as i64,e.get_second() as i64);
        if ey==1582&&em==10&&ed>4 { gap+=1; }
        if got!=(ey,em,ed,eh,emi,es) { iss.push(format!("END {} {:?} counts {:?} got {:?} want {:?}", t,g,(ay,am,ad,ah,ami),got,(ey,em,ed,eh,emi,es))); }
        let sg= if fwd {1} else {-1};
        if df0!=(mp+sg).rem_euclid(60) || df3!=(mp+4*sg).rem_euclid(60) { iss.push(format!("DECADE pillar {}", t)); }
        let base=(got.0 - y as i64 +1) as isize; if a0!=base || a3!=base+30 { iss.push(format!("DECADE age {} {a0} {a3} base {base}", t)); }
        if f0!=(hp+sg*base as i64).rem_euclid(60) || f5!=(hp+sg*(base as i64+5)).rem_euclid(60) || fy0!=got.0 as isize || fa5!=base+5 { iss.push(format!("FORTUNE {}", t)); }
      }}
    }
    // direct providers: only panics/basic
    if it%10==0 { let mut term=t.get_term(); if !term.is_jie(){term=term.next(-1);} if it%20==0 {term=term.next(2);} for (name,p) in provs.iter() { let tt=term.clone(); let r=panic::catch_unwind(panic::AssertUnwindSafe(|| { let i=p.get_info(t,tt); (i.get_end_time(), i.get_year_count()) })); if let Ok((e,yc))=r { if e.is_before(t) || yc>10 { iss.push(format!("PROV {name} {} end {} yc {yc}", t, e)); } } else { iss.push(format!("PROV {name} PANIC {}", t)); } } }
  }
  let np: Vec<_>=iss.iter().filter(|s| !s.contains("157")&&!s.contains("158")).collect();
  println!("n={n} issues={} (outside 157x/158x births: {}) gap_landings_ok={gap}", iss.len(), np.len()); for i in np.iter().take(10){println!("  {i}");}
  for i in iss.iter().filter(|s| s.starts_with("END")).take(6){println!("  {i}");}
}
