use tyme4rs::tyme::solar::*;
fn main(){ let t=SolarTerm::from_index(3439,18); let jd=t.get_julian_day(); println!("jd={:.9} time={} day={}", jd.get_day(), jd.get_solar_time(), jd.get_solar_day()); }
