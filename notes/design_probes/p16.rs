use tyme4rs::tyme::solar::*;
use tyme4rs::tyme::Tyme;
use tyme4rs::tyme::Culture;
use std::panic;
fn termday(y:isize,i:isize)->i64{ let jd=SolarTerm::from_index(y,i).get_julian_day().get_day(); (jd+0.5+0.5/86400.0).floor() as i64 }
fn main(){
  panic::set_hook(Box::new(|_| {}));
  let args: Vec<String> = std::env::args().collect();
  let y0: isize = args[1].parse().unwrap(); let y1: isize = args[2].parse().unwrap();
  let allot: [[(usize,usize);3];12] = [ // by month from Yin(寅)=0: (stem, days) ; 0 days = absent ; last = rest
    [(4,7),(2,7),(0,99)],[(0,10),(9,0),(1,99)],[(1,9),(9,3),(4,99)],[(4,5),(6,9),(2,99)],[(2,10),(5,9),(3,99)],[(3,9),(1,3),(5,99)],
    [(4,10),(8,3),(6,99)],[(6,10),(9,0),(7,99)],[(7,9),(3,3),(4,99)],[(4,7),(0,5),(8,99)],[(8,10),(9,0),(9,99)],[(9,9),(7,3),(5,99)]];
  let mut iss=vec![]; let mut n=0; let mut hh=0u64; let mut nine=0u64; let mut dog=0u64; let mut plum=0u64;
  for y in y0..=y1 {
    // term days for year y-1..y+1
    let mut td: Vec<(i64,isize)> = vec![]; for yy in (y-1)..=(y+1) { for i in 0..24 { td.push((termday(yy,i), i)); } }
    let first=SolarDay::from_ymd(y,1,1); let cnt=SolarYear::from_year(y).get_day_count() as isize;
    let ws_prev=termday(y,0); let ws_this=termday(y+1,0);
    let xz=termday(y,12); let lq=termday(y,15); let mz=termday(y,11); let xs=termday(y,13);
    let stem=|j:i64| (j+49).rem_euclid(60)%10; let branch=|j:i64| (j+49).rem_euclid(60)%12;
    let mut g=xz; while stem(g)!=6 {g+=1;} let d1=g+20; let d2=d1+10; let g5=d2+10; let long= g5<lq; let d3= if long {g5+10} else {g5}; let dend=d3+10;
    let mut ps=mz; while stem(ps)!=2 {ps+=1;} let mut pe=xs; while branch(pe)!=7 {pe+=1;}
    for k in 0..cnt { let sd=first.next(k); let j=(sd.get_julian_day().get_day()+0.5) as i64;
      n+=1;
      // nine
      let wn = if j>=ws_this && j<ws_this+81 {Some(((j-ws_this)/9,(j-ws_this)%9))} else if j>=ws_prev && j<ws_prev+81 {Some(((j-ws_prev)/9,(j-ws_prev)%9))} else {None};
      let gn = sd.get_nine_day().map(|x| (x.get_nine().get_index() as i64, x.get_day_index() as i64)); if gn!=wn { iss.push(format!("NINE {} {:?} {:?}", sd, gn, wn)); } if wn.is_some(){nine+=1;}
      let wd = if j<d1||j>=dend {None} else if j<d2 {Some((0,j-d1))} else if j<d3 {Some((1,j-d2))} else {Some((2,j-d3))};
      let gd = sd.get_dog_day().map(|x| (x.get_dog().get_index() as i64, x.get_day_index() as i64)); if gd!=wd { iss.push(format!("DOG {} {:?} {:?}", sd, gd, wd)); } if wd.is_some(){dog+=1;}
      let wp = if j<ps||j>pe {None} else if j==pe {Some((1,0))} else {Some((0,j-ps))};
      let gp = sd.get_plum_rain_day().map(|x| (x.get_plum_rain().get_index() as i64, x.get_day_index() as i64)); if gp!=wp { iss.push(format!("PLUM {} {:?} {:?}", sd, gp, wp)); } if wp.is_some(){plum+=1;}
      // term containing j
      let mut ti=0; for (q,(t,_)) in td.iter().enumerate() { if *t<=j {ti=q;} }
      let (tj,tidx)=td[ti]; let di=j-tj; let pi=(di/5).min(2); 
      let r=panic::catch_unwind(|| { let p=sd.get_phenology_day(); let h=sd.get_hide_heaven_stem_day(); (p.get_phenology().get_index() as i64, p.get_day_index() as i64, h.get_hide_heaven_stem().get_heaven_stem().get_index(), h.get_hide_heaven_stem().get_type().get_name(), h.get_day_index()) });
      match r { Err(_)=>iss.push(format!("PANIC {}", sd)), Ok((pidx,pdi,hs,ht,hdi))=>{
        if (pidx,pdi)!=(tidx as i64*3+pi, di-pi*5) { iss.push(format!("PHEN {} got {:?} want {:?}", sd,(pidx,pdi),(tidx as i64*3+pi, di-pi*5))); }
        // jie day
        let (jj,jidx)= if tidx%2==1 {(tj,tidx)} else {td[ti-1]}; let mi=((jidx-3).rem_euclid(24)/2) as usize; let mut dd=(j-jj) as usize; let mut want=(0,0usize,0usize);
        let mut ty=0; for (s,c) in allot[mi].iter() { if *c==0 {ty+=1;continue;} if dd<*c { want=(*s,ty,dd); break; } dd-=*c; ty+=1; }
        let tn=["余气","中气","本气"][want.1];
        if (hs,ht.as_str(),hdi)!=(want.0,tn,want.2) { hh+=1; if hh<6 { iss.push(format!("HIDE {} got {:?} want {:?}", sd,(hs,&ht,hdi),(want.0,tn,want.2))); } }
      }}
    }
  }
  println!("[{y0}-{y1}] days={n} nine={nine} dog={dog} plum={plum} hide_mismatch={hh} other issues={}", iss.len()); for i in iss.iter().take(12){println!("  {i}");}
}
