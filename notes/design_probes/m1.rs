use tyme4rs::tyme::lunar::*;
use tyme4rs::tyme::solar::*;
use std::thread;
fn main(){
  let hs: Vec<_> = (0..3).map(|t| thread::spawn(move || {
    let mut out=vec![];
    for (y,m) in [(1,12isize),(11,2),(202,11),(2021,1)] { let lm=LunarMonth::from_ym(y,m); out.push((lm.get_year(), lm.get_month_with_leap(), lm.get_day_count(), lm.get_first_julian_day().get_day() as i64)); }
    if t==0 { let d=SolarDay::from_ymd(1500,3,28).get_lunar_day(); out.push((d.get_year(), d.get_month(), d.get_day(), 0)); }
    out })).collect();
  for h in hs { println!("{:?}", h.join().unwrap()); }
}
