use tyme4rs::tyme::eightchar::*;
use tyme4rs::tyme::sixtycycle::*;
use tyme4rs::tyme::solar::*;
use tyme4rs::tyme::Culture;
use tyme4rs::tyme::Tyme;
fn main(){
  // own sign / body sign: pillar must be one of the year's 12 five-tiger month pillars (stem fixed by branch)
  let mut own_bad=0; let mut body_bad=0; let mut n=0; let mut ex=vec![];
  for ys in 0..10isize { for mb in 0..12isize { for hb in 0..12isize {
    let year=SixtyCycle::from_index((0..60).find(|c| c%10==ys).unwrap());
    let month=SixtyCycle::from_index((0..60).find(|c| c%12==mb).unwrap());
    let hour=SixtyCycle::from_index((0..60).find(|c| c%12==hb).unwrap());
    let ec=EightChar::from_sixty_cycle(year.clone(), month.clone(), SixtyCycle::from_index(0), hour.clone());
    let five_tiger=|b:isize| -> isize { let k=(b-2).rem_euclid(12); ((ys%5)*2+2+k).rem_euclid(10) };
    let m=(mb-2).rem_euclid(12)+1; let h=(hb-2).rem_euclid(12)+1; // 寅=1..丑=12
    let s=m+h; let off= if s>=14 {26-s} else {14-s}; let want_b=(2+off-1).rem_euclid(12);
    let o=ec.get_own_sign(); let (os,ob)=(o.get_heaven_stem().get_index() as isize,o.get_earth_branch().get_index() as isize);
    n+=1;
    if ob!=want_b || os!=five_tiger(want_b) { own_bad+=1; if ex.len()<5 { ex.push(format!("own ys{ys} mb{mb} hb{hb}: got {} want stem{} branch{}", o.get_name(), five_tiger(want_b), want_b)); } }
    let want_bb=(2 + (m + hb).rem_euclid(12)).rem_euclid(12);
    let b=ec.get_body_sign(); let (bs,bb)=(b.get_heaven_stem().get_index() as isize,b.get_earth_branch().get_index() as isize);
    if bb!=want_bb || bs!=five_tiger(want_bb) { body_bad+=1; if ex.len()<10 { ex.push(format!("body ys{ys} mb{mb} hb{hb}: got {} want stem{} branch{}", b.get_name(), five_tiger(want_bb), want_bb)); } }
  }}}
  println!("n={n} own_bad={own_bad} body_bad={body_bad}"); for e in ex {println!("  {e}");}
  // hour nine star late december
  for (y,m,d) in [(2023,12,21),(2023,12,22),(2023,12,25),(2024,1,5),(2024,6,20),(2024,6,21),(2024,6,22)] {
    let t=SolarTime::from_ymd_hms(y,m,d,9,0,0); let h=t.get_sixty_cycle_hour(); let t2=SolarTime::from_ymd_hms(y,m,d,11,0,0).get_sixty_cycle_hour();
    println!("{} day {} hour9 star {} hour11 star {}", t, h.get_day().get_name(), h.get_nine_star().get_name(), t2.get_nine_star().get_name());
  }
}
