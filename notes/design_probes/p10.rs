use tyme4rs::tyme::solar::*;
use tyme4rs::tyme::eightchar::*;
use tyme4rs::tyme::eightchar::provider::*;
use tyme4rs::tyme::enums::*;
use tyme4rs::tyme::Tyme;
use tyme4rs::tyme::Culture;
use std::time::Instant;
use std::panic;
struct Rng(u64); impl Rng { fn next(&mut self)->u64{ self.0^=self.0<<13; self.0^=self.0>>7; self.0^=self.0<<17; self.0 } fn range(&mut self, a:i64,b:i64)->i64{ a + (self.next()%((b-a+1) as u64)) as i64 } }
fn main() {
  panic::set_hook(Box::new(|_| {}));
  let t0=Instant::now(); let mut rng=Rng(0x1234567887654321);
  let mut issues=vec![]; let mut n=0;
  for it in 0..40000 {
    let y= if it%3==0 { rng.range(1570,1583) } else { rng.range(2,9985) } as isize; let m=rng.range(1,12) as usize; let dc=SolarMonth::from_ym(y,m).get_day_count(); let mut d=rng.range(1,dc as i64) as usize; if y==1582&&m==10&&d>4 {d+=10;}
    let (h,mi,s)=(rng.range(0,23) as usize, rng.range(0,59) as usize, rng.range(0,59) as usize);
    let t=SolarTime::from_ymd_hms(y,m,d,h,mi,s);
    for g in [Gender::MAN, Gender::WOMAN] {
      let r=panic::catch_unwind(|| { let mut iss=vec![];
        let cl=ChildLimit::from_solar_time(t,g);
        let yang = cl.get_eight_char().get_year().get_heaven_stem().get_index()%2==0;
        let fwd = (yang && g==Gender::MAN) || (!yang && g==Gender::WOMAN);
        if cl.is_forward()!=fwd { iss.push(format!("{} dir", t)); }
        let e=cl.get_end_time();
        if e.is_before(t) { iss.push(format!("{} end before birth {}", t, e)); }
        let secs=e.subtract(t); if secs > 11*366*86400 { iss.push(format!("{} too long", t)); }
        // governing jie
        let mut term=t.get_term(); if !term.is_jie() { term=term.next(-1);} if fwd { term=term.next(2);} 
        let tt=term.get_julian_day().get_solar_time();
        let diff = tt.subtract(t).abs();
        if fwd && tt.is_before(t) { iss.push(format!("{} fwd jie before", t)); }
        if !fwd && tt.is_after(t) { iss.push(format!("{} back jie after", t)); }
        let (yy,mm,dd,hh,mn)=(diff/259200, diff%259200/21600, diff%21600/720, diff%720/30, diff%30*2);
        if (cl.get_year_count() as isize,cl.get_month_count() as isize,cl.get_day_count() as isize,cl.get_hour_count() as isize,cl.get_minute_count() as isize)!=(yy,mm,dd,hh,mn) { iss.push(format!("{} counts", t)); }
        iss });
      n+=1; match r { Err(_)=>issues.push(format!("PANIC {} {:?}", t, g)), Ok(v)=>issues.extend(v) }
    }
  }
  println!("n={n} issues={} t={:?}", issues.len(), t0.elapsed()); for i in issues.iter().take(25){println!("  {i}");}
  let mut by: std::collections::BTreeMap<String,usize>=Default::default(); for i in &issues { let k: String = i.split('年').next().unwrap().to_string(); *by.entry(k).or_default()+=1; } println!("{:?}", by);
}
