// C17 probe: day-level almanac cycles vs oracle
use tyme4rs::tyme::solar::*;
use tyme4rs::tyme::lunar::*;
use tyme4rs::tyme::Tyme;
use tyme4rs::tyme::Culture;
use std::panic;
fn termday(y:isize,i:isize)->i64{ let jd=SolarTerm::from_index(y,i).get_julian_day().get_day(); (jd+0.5+0.5/86400.0).floor() as i64 }
fn main(){
  panic::set_hook(Box::new(|_| {}));
  let args: Vec<String> = std::env::args().collect();
  let y0: isize = args[1].parse().unwrap(); let y1: isize = args[2].parse().unwrap();
  let mut iss: Vec<String>=vec![]; let mut n=0u64; let mut leapdays=0u64;
  let wk=["日","一","二","三","四","五","六"]; let sv=["日","月","火","水","木","金","土"];
  let mut prev_mansion: Option<usize>=None;
  for y in y0..=y1 {
    let dz=termday(y,0); let xz=termday(y,12); let dz2=termday(y+1,0);
    let near=|t:i64| { let idx=(t+49).rem_euclid(60); if idx>29 { t+60-idx } else { t-idx } };
    let (sb,nz,sb2)=(near(dz),near(xz),near(dz2));
    let first=SolarDay::from_ymd(y,1,1); let cnt=SolarYear::from_year(y).get_day_count() as isize;
    // jie days for month branch
    let mut jies: Vec<(i64,i64)>=vec![]; for yy in (y-1)..=(y+1) { for i in (1..24).step_by(2) { let b=(( (i as i64 -3)/2 + 2) + 24).rem_euclid(12); let b = if i==1 {1} else {b}; jies.push((termday(yy,i as isize), b)); } }
    jies.sort();
    for k in 0..cnt { let sd=first.next(k); let j=(sd.get_julian_day().get_day()+0.5) as i64;
      if y==1 && k<6 {continue;}
      let r=panic::catch_unwind(|| { let scd=sd.get_sixty_cycle_day(); let ld=sd.get_lunar_day();
        (scd.get_duty().get_index(), scd.get_twelve_star().get_index(), scd.get_twenty_eight_star().get_index(), scd.get_twenty_eight_star().get_seven_star().get_name(), scd.get_nine_star().get_index(), ld.get_six_star().get_index(), ld.get_month(), ld.get_day(), ld.get_phase().get_index(), ld.get_minor_ren().get_index(), ld.get_twenty_eight_star().get_index(), ld.get_nine_star().get_index(), sd.get_week().get_name()) });
      n+=1;
      match r { Err(_)=>iss.push(format!("PANIC {}", sd)), Ok((duty,tw,m28,seven,nine,six,lm,ld,phase,ren,lm28,lnine,week))=>{
        let db=(j+49).rem_euclid(60)%12; let mut mb=0; for (t,b) in jies.iter() { if *t<=j { mb=*b; } }
        if duty as i64!=(db-mb).rem_euclid(12) { iss.push(format!("DUTY {} got {duty} want {}", sd,(db-mb).rem_euclid(12))); }
        let start=[8i64,10,0,2,4,6][(mb%6) as usize]; // branch where 青龙 starts: 子午→申(8) 丑未→戌(10) 寅申→子(0) 卯酉→寅(2) 辰戌→辰(4) 巳亥→午(6)
        if tw as i64!=(db-start).rem_euclid(12) { iss.push(format!("TWELVE {} got {tw} want {}", sd,(db-start).rem_euclid(12))); }
        if let Some(p)=prev_mansion { if m28!=(p+1)%28 { iss.push(format!("M28 step {} {p}->{m28}", sd)); } } prev_mansion=Some(m28);
        let wi=wk.iter().position(|x| *x==week).unwrap(); if seven!=sv[wi] { iss.push(format!("M28 luminary {} {} vs weekday {}", sd, seven, week)); }
        if lm28!=m28 { iss.push(format!("M28 lunar!=scd {}", sd)); }
        let want_nine = if j>=sb && j<nz { (j-sb).rem_euclid(9) } else if j>=nz && j<sb2 { (8-(j-nz)).rem_euclid(9) } else if j>=sb2 { (j-sb2).rem_euclid(9) } else { (8+(sb-j)).rem_euclid(9) };
        if nine as i64!=want_nine || lnine!=nine { iss.push(format!("NINE {} got {nine}/{lnine} want {want_nine}", sd)); }
        if lm<0 {leapdays+=1;}
        if six as i64!=(lm.abs() as i64+ld as i64-2).rem_euclid(6) { iss.push(format!("SIX {} L{}/{} got {six}", sd,lm,ld)); }
        if phase!=ld-1 { iss.push(format!("PHASE {}", sd)); }
        if ren as i64!=(lm.abs() as i64-1+ld as i64-1).rem_euclid(6) { iss.push(format!("REN {}", sd)); }
      }}
    }
  }
  println!("[{y0}-{y1}] days={n} leapdays={leapdays} issues={}", iss.len()); let np: Vec<_>=iss.iter().filter(|s| !s.starts_with("PANIC")).collect(); println!("panics={} nonpanic={}", iss.len()-np.len(), np.len()); for i in np.iter().take(12){println!("  {i}");} let mut kinds: std::collections::BTreeMap<String,(usize,String,String)>=Default::default(); for s in &np { let k=s.split(" ").next().unwrap().to_string(); let d=s.split(" ").nth(1).unwrap_or("").to_string(); let e=kinds.entry(k).or_insert((0,d.clone(),d.clone())); e.0+=1; e.2=d; } println!("{:?}", kinds); let pl: Vec<_>=iss.iter().filter(|s| s.starts_with("PANIC")).collect(); println!("panic first {:?} last {:?}", pl.first(), pl.last());
}
