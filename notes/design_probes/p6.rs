// C13/C14 solar weeks & containers
use tyme4rs::tyme::solar::*;
use tyme4rs::tyme::lunar::*;
use tyme4rs::tyme::Tyme;
use std::time::Instant;
use std::panic;
fn jdn(d: &SolarDay) -> i64 { (d.get_julian_day().get_day()+0.5) as i64 }
fn main() {
  panic::set_hook(Box::new(|_| {}));
  let t0=Instant::now();
  let mut issues: Vec<String> = vec![]; let mut n=0u64;
  for y in 1..=9999isize { for m in 1..=12usize {
    if (y==1 && m==1) || (y==9999 && m==12) { continue; }
    let sm = SolarMonth::from_ym(y,m);
    let r = panic::catch_unwind(|| {
      let mut iss = vec![];
      let days = sm.get_days();
      if days.len()!=sm.get_day_count() { iss.push(format!("{y}-{m} days len")); }
      let first = jdn(&days[0]); let last = jdn(days.last().unwrap());
      for w in days.windows(2) { if jdn(&w[1])!=jdn(&w[0])+1 { iss.push(format!("{y}-{m} days not consecutive")); } }
      for start in 0..7usize {
        let wc = sm.get_week_count(start);
        let weeks = sm.get_weeks(start);
        if weeks.len()!=wc { iss.push(format!("{y}-{m} s{start} weeks len")); }
        let mut covered = std::collections::BTreeSet::new();
        let mut prevfirst: Option<i64> = None;
        for (i,w) in weeks.iter().enumerate() {
          let fd = w.get_first_day();
          if fd.get_week().get_index()!=start { iss.push(format!("{y}-{m} s{start} w{i} first weekday")); }
          let ds = w.get_days(); if ds.len()!=7 { iss.push("len7".into()); }
          for k in 0..7 { if jdn(&ds[k])!=jdn(&fd)+k as i64 { iss.push(format!("{y}-{m} s{start} w{i} nonconsec")); } covered.insert(jdn(&ds[k])); }
          if let Some(p)=prevfirst { if jdn(&fd)!=p+7 { iss.push(format!("{y}-{m} s{start} w{i} not +7")); } }
          prevfirst=Some(jdn(&fd));
          // each week must intersect the month
          if jdn(&fd)+6 < first || jdn(&fd) > last { iss.push(format!("{y}-{m} s{start} w{i} outside month")); }
        }
        for d in first..=last { if !covered.contains(&d) { iss.push(format!("{y}-{m} s{start} day {} uncovered", d-first)); break; } }
        // SolarWeek::new refuses index wc
        if wc<6 { if SolarWeek::new(y,m,wc,start).is_ok() { iss.push(format!("{y}-{m} s{start} index {wc} accepted")); } }
      }
      // date->week (only start 0 and 1 to save time... all 7)
      for d in days.iter() { for start in [0usize,1,6] {
        let w = d.get_solar_week(start); let fd=jdn(&w.get_first_day());
        if !(fd<=jdn(d) && jdn(d)<=fd+6) || w.get_month()!=m { iss.push(format!("{} s{start} week does not contain", d)); }
      }}
      iss
    });
    n+=1;
    match r { Err(_) => issues.push(format!("{y}-{m} PANIC")), Ok(v) => issues.extend(v) }
  }}
  println!("months={n} issues={} t={:?}", issues.len(), t0.elapsed());
  for i in issues.iter().take(30) { println!("  {i}"); }
}
