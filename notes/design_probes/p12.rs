use tyme4rs::tyme::festival::*;
use tyme4rs::tyme::holiday::*;
use tyme4rs::tyme::solar::*;
use tyme4rs::tyme::lunar::*;
use tyme4rs::tyme::Tyme;
use tyme4rs::tyme::Culture;
use std::panic;
use std::time::Instant;
fn main() {
  panic::set_hook(Box::new(|_| {}));
  let t0=Instant::now();
  // lunar festivals by index for years 1..9998
  let mut issues=vec![]; let mut n=0; let mut shared=0;
  for y in 1..=9998isize { for i in 0..13usize {
    let r=panic::catch_unwind(|| { let mut iss=vec![]; let mut sh=0;
      let f=LunarFestival::from_index(y,i).unwrap(); let d=f.get_day();
      let back=d.get_festival();
      match back { None=>iss.push(format!("{y} idx{i} {} not found by date", d)), Some(b)=>{ if b.get_index()!=i { if b.get_index()<i { sh=1; } else { iss.push(format!("{y} idx{i} {} found later idx {}", d, b.get_index())); } } } }
      // step
      for nn in [-14isize,-13,-1,0,1,12,13,27] { let ty = (y*13 + i as isize + nn).div_euclid(13); if ty<1||ty>9998 {continue;} let x=f.next(nn).unwrap(); let wi=(i as isize+nn).rem_euclid(13) as usize; let want=LunarFestival::from_index(ty,wi).unwrap(); if x.get_index()!=wi || x.get_day()!=want.get_day() { iss.push(format!("{y} idx{i} next({nn}) -> {} want {}", x, want)); } }
      (iss,sh) });
    n+=1; match r { Err(_)=>issues.push(format!("PANIC {y} idx{i}")), Ok((v,s))=>{issues.extend(v); shared+=s;} }
  }}
  println!("lunar festival n={n} issues={} shared={shared} t={:?}", issues.len(), t0.elapsed()); for i in issues.iter().take(20){println!("  {i}");}
  // holidays
  let data=LEGAL_HOLIDAY_DATA; println!("holiday data len {} records {}", data.len(), data.len()/13);
  let recs: Vec<&str> = (0..data.len()/13).map(|i| &data[i*13..i*13+13]).collect();
  let mut set=std::collections::BTreeMap::new(); let mut issues=vec![];
  for r in &recs { let y:isize=r[0..4].parse().unwrap(); let m:usize=r[4..6].parse().unwrap(); let d:usize=r[6..8].parse().unwrap(); let w=&r[8..9]; let idx:usize=r[9..10].parse().unwrap(); let off:i64=r[10..13].parse().unwrap();
    if SolarDay::new(y,m,d).is_err() { issues.push(format!("bad date {r}")); continue; }
    if set.insert((y,m,d),(w=="0",idx,off)).is_some() { issues.push(format!("dup {r}")); } }
  let mut prev=None; for r in &recs { let k=&r[0..8]; if let Some(p)=prev { if k<=p { issues.push(format!("order {r}")); } } prev=Some(k); }
  for ((y,m,d),(work,idx,off)) in set.iter() { let sd=SolarDay::from_ymd(*y,*m,*d); let t=sd.next(*off as isize); let k=(t.get_year(),t.get_month(),t.get_day()); match set.get(&k) { None=>issues.push(format!("target of {y}-{m}-{d} off {off} not in table")), Some((w2,i2,_))=>{ if *w2 { issues.push(format!("target of {y}-{m}-{d} is a work day")); } if i2!=idx { issues.push(format!("target of {y}-{m}-{d} other holiday idx {i2} vs {idx}")); } } } let _=work; }
  let mut cnt=0; let first=SolarDay::from_ymd(1995,1,1); let total=SolarDay::from_ymd(2035,12,31).subtract(first);
  for k in 0..=total { let sd=first.next(k); let h=sd.get_legal_holiday(); let want=set.get(&(sd.get_year(),sd.get_month(),sd.get_day())); match (h,want) { (None,None)=>{}, (Some(h),Some((w,i,_)))=>{ cnt+=1; if h.is_work()!=*w || h.get_name()!=LEGAL_HOLIDAY_NAMES[*i] { issues.push(format!("{} mismatch", sd)); } }, (a,b)=>issues.push(format!("{} membership {:?} {:?}", sd, a.is_some(), b.is_some())) } }
  println!("holiday found {cnt} issues={}", issues.len()); for i in issues.iter().take(20){println!("  {i}");}
  // stepping in order
  let mut h=LegalHoliday::from_ymd(2001,12,29).unwrap(); let mut steps=0; let keys: Vec<_>=set.keys().cloned().collect(); let mut bad=0;
  loop { let d=h.get_day(); if keys[steps]!=(d.get_year(),d.get_month(),d.get_day()) { bad+=1; } match h.next(1) { None=>break, Some(x)=>{h=x; steps+=1;} } }
  println!("stepped {} of {} bad={bad}", steps+1, keys.len());
}
