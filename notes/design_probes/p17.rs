use tyme4rs::tyme::solar::*;
use tyme4rs::tyme::lunar::*;
use tyme4rs::tyme::util::ShouXingUtil as U;
use tyme4rs::tyme::Tyme;
use std::f64::consts::PI;
fn main(){
  // dt continuity at integer years
  let mut maxj:f64=0.0; let mut at=0.0; let mut maxstep:f64=0.0;
  let mut y=-4000.0f64; while y<=10000.0 { let a=U::dt_calc(y-1e-9); let b=U::dt_calc(y+1e-9); let j=(a-b).abs(); if j>maxj {maxj=j; at=y;} y+=1.0; }
  let mut y=-4000.0f64; while y<10000.0 { let a=U::dt_calc(y); let b=U::dt_calc(y+0.01); let s=(a-b).abs(); if s>maxstep {maxstep=s;} y+=0.01; }
  println!("dt max jump at integer years {maxj:.3}s at {at}; max |dt(y+0.01)-dt(y)| {maxstep:.3}s");
  // inverse residuals
  let mut maxr:f64=0.0; let mut maxm:f64=0.0; let mut n=0;
  for k in (-10000*24)..(10000*24) { if k%7!=0 {continue;} let w=k as f64*PI/12.0; let t=U::sa_lon_t(w); let r=(U::sa_lon(t,-1)-w).abs(); if r>maxr{maxr=r;} n+=1; }
  for k in (-10000*12)..(10000*12) { if k%5!=0 {continue;} let w=k as f64*2.0*PI; let t=U::m_sa_lon_t(w); let r=(U::m_sa_lon(t,-1,-1)-w).abs(); if r>maxm{maxm=r;} }
  println!("inverse residual sun max {:.3e} rad ({:.4}\") over {n}; moon max {:.3e} rad ({:.4}\")", maxr, maxr*206265.0, maxm, maxm*206265.0);
  // day agreement terms 1961..9999
  let mut dis=0; let mut n=0; let mut near=0;
  for y in 1961..=9999isize { for i in 0..24isize { let t=SolarTerm::from_index(y,i); let c=t.get_cursory_julian_day()+2451545.0; let p=t.get_julian_day().get_day(); let pd=(p+0.5).floor(); n+=1; if pd!=c { dis+=1; } let f=(p+0.5)-pd; if f*86400.0<1.0 || (1.0-f)*86400.0<1.0 { near+=1; } } }
  println!("terms 1961-9999 n={n} day disagreements={dis} within 1s of midnight={near}");
  // lunations 1961..8000: first day vs precise conjunction
  let mut dis=0; let mut n=0; let mut dis_late=0; let mut n_late=0;
  let mut m=LunarMonth::from_ym(1961,1);
  loop { let fj=m.get_first_julian_day().get_day(); let k=((fj-2451545.0+8.0-2451551.0+2451545.0)/29.5306).round(); let _=k;
    // conjunction index: w = round((fj - 2451551)/29.5306) * 2pi
    let kk=((fj-2451551.0)/29.5306).round(); let tt=U::m_sa_lon_t(kk*2.0*PI)*36525.0; let ut8=tt - U::dtt(tt) + 8.0/24.0; let day=(ut8+2451545.0+0.5).floor();
    if m.get_year()<=8000 { n+=1; if day!=fj {dis+=1; if dis<4 { println!("  lunation {}/{} first {} precise {}", m.get_year(), m.get_month_with_leap(), fj, ut8+2451545.0); } } } else { n_late+=1; if day!=fj {dis_late+=1;} }
    if m.get_year()==9999 && m.get_month()==12 {break;} m=m.next(1); }
  println!("lunations 1961-8000 n={n} disagreements={dis}; 8001-9999 n={n_late} disagreements={dis_late}");
}
