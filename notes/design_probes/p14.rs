use tyme4rs::tyme::solar::*;
use tyme4rs::tyme::lunar::*;
use tyme4rs::tyme::Tyme;
use std::time::Instant;
fn main(){
  let t0=Instant::now();
  // all lunations in order with labels
  let mut ms: Vec<(isize,isize,i64,usize)> = vec![]; // year, month_with_leap, first jdn, daycount
  let mut m=LunarMonth::from_ym(20,1);
  loop { ms.push((m.get_year(), m.get_month_with_leap(), m.get_first_julian_day().get_day() as i64, m.get_day_count())); if m.get_year()==9999 && m.get_month()==12 {break;} m=m.next(1); }
  // zhongqi days: even-index terms, cursory day (J2000-based) + 2451545
  let mut zq: Vec<(i64,isize,usize)>=vec![]; // jdn, termyear, idx
  for y in 20..=10000isize { for i in (0..24).step_by(2) { let t=SolarTerm::from_index(y,i as isize); zq.push(((t.get_cursory_julian_day()+2451545.0) as i64, y, i)); } }
  zq.sort();
  // for each lunation: list of zhongqi inside
  let mut zi=0; let mut has: Vec<Vec<usize>> = vec![vec![]; ms.len()];
  for (k,(_,_,f,dc)) in ms.iter().enumerate() { while zi<zq.len() && zq[zi].0 < *f { zi+=1; } let mut j=zi; while j<zq.len() && zq[j].0 < f + *dc as i64 { has[k].push(zq[j].2); j+=1; } }
  // find solstice lunations
  let sol: Vec<usize> = (0..ms.len()).filter(|&k| has[k].contains(&0)).collect();
  let mut dis=vec![]; let mut checked=0;
  for w in sol.windows(2) { let (a,b)=(w[0],w[1]); let cnt=b-a; 
    // expected labels from a: month 11 of year Y(a)
    let ya=ms[a].0; 
    let mut exp: Vec<(isize,isize)>=vec![]; // for k in a..b
    let mut num=11isize; let mut yr=ya; let mut leap_used=false;
    exp.push((yr,11));
    for k in a+1..b { if cnt==13 && !leap_used && has[k].is_empty() { exp.push((yr,-num)); leap_used=true; } else { num+=1; if num>12 { num=1; yr+=1; } exp.push((yr,num)); } }
    if !(cnt==12||cnt==13) { dis.push(format!("solstice gap {cnt} at year {ya}")); continue; }
    for (off,k) in (a..b).enumerate() { checked+=1; if (ms[k].0,ms[k].1)!=exp[off] { dis.push(format!("lunation first jdn {} labelled {}/{} expected {}/{} (cnt {cnt})", ms[k].2, ms[k].0,ms[k].1, exp[off].0,exp[off].1)); } }
  }
  println!("lunations={} solstice-months={} checked={checked} disagreements={} t={:?}", ms.len(), sol.len(), dis.len(), t0.elapsed());
  for d in dis.iter().filter(|s| !s.contains("labelled 2[0-4]/") && !s.contains("labelled 20/") && !s.contains("labelled 21/") && !s.contains("labelled 22/") && !s.contains("labelled 23/")){println!("  {d}");}
}
