use tyme4rs::tyme::solar::*;
use tyme4rs::tyme::Tyme;
use tyme4rs::tyme::Culture;
use std::panic;
fn main(){ panic::set_hook(Box::new(|_| {}));
  let first=SolarDay::from_ymd(1,1,1);
  for k in 0..15 { let sd=first.next(k); let a=panic::catch_unwind(|| sd.get_term_day().get_day_index()).is_ok(); let b=panic::catch_unwind(|| sd.get_sixty_cycle_day().get_name()).is_ok(); let c=panic::catch_unwind(|| SolarTime::from_ymd_hms(sd.get_year(),sd.get_month(),sd.get_day(),12,0,0).get_sixty_cycle_hour().get_name()).is_ok(); let d=panic::catch_unwind(|| sd.get_nine_day().is_some()).is_ok(); let e=panic::catch_unwind(|| sd.get_phenology_day().get_day_index()).is_ok(); println!("{} term_day ok={a} scd ok={b} sch ok={c} nine ok={d} phen ok={e}", sd); }
  let last=SolarDay::from_ymd(9999,12,31);
  for k in 0..12 { let sd=last.next(-k); let a=panic::catch_unwind(|| sd.get_term_day().get_day_index()).is_ok(); let b=panic::catch_unwind(|| sd.get_sixty_cycle_day().get_name()).is_ok(); let d=panic::catch_unwind(|| sd.get_nine_day().is_some()).is_ok(); let l=panic::catch_unwind(|| sd.get_lunar_day().get_day()).is_ok(); println!("{} term_day ok={a} scd ok={b} nine ok={d} lunar ok={l}", sd); }
}
