use tyme4rs::tyme::culture::*;
use tyme4rs::tyme::culture::dog::*; use tyme4rs::tyme::culture::nine::*; use tyme4rs::tyme::culture::fetus::*; use tyme4rs::tyme::culture::peng_zu::*; use tyme4rs::tyme::culture::phenology::*; use tyme4rs::tyme::culture::plumrain::*; use tyme4rs::tyme::culture::ren::minor::*;
use tyme4rs::tyme::culture::star::nine::*; use tyme4rs::tyme::culture::star::seven::*; use tyme4rs::tyme::culture::star::six::*; use tyme4rs::tyme::culture::star::ten::*; use tyme4rs::tyme::culture::star::twelve::*; use tyme4rs::tyme::culture::star::twenty_eight::*;
use tyme4rs::tyme::sixtycycle::*; use tyme4rs::tyme::lunar::LunarSeason;
use tyme4rs::tyme::{Tyme,Culture};
use std::panic;
macro_rules! cyc { ($t:ident, $names:expr, $iss:ident, $named:expr) => {{
  let size=$names.len() as isize; let mut cnt=0;
  for i in 0..size { let x=$t::from_index(i); if x.get_index() as isize!=i || x.get_name()!=$names[i as usize] || x.get_size() as isize!=size { $iss.push(format!("{} from_index {i}", stringify!($t))); }
    for n in (-2*size)..=(2*size) { cnt+=1; let y=x.next(n); if y.get_index() as isize!=(i+n).rem_euclid(size) { $iss.push(format!("{} {i} next {n} -> {}", stringify!($t), y.get_index())); } }
    for n in [1000003isize,-1000003] { if x.next(n).get_index() as isize!=(i+n).rem_euclid(size) { $iss.push(format!("{} big", stringify!($t))); } }
    if $t::from_index(i+7*size).get_index() as isize!=i || $t::from_index(i-7*size).get_index() as isize!=i { $iss.push(format!("{} wrap", stringify!($t))); }
  }
  cnt
}}; }
macro_rules! named { ($t:ident, $names:expr, $iss:ident) => {{
  let size=$names.len(); for i in 0..size { let first=$names.iter().position(|x| *x==$names[i]).unwrap(); let r=panic::catch_unwind(|| $t::from_name($names[i]).get_index()); match r { Ok(k)=> if k!=first { $iss.push(format!("{} from_name {i}->{k}", stringify!($t))); }, Err(_)=>$iss.push(format!("{} from_name panic {i}", stringify!($t))) } }
  if panic::catch_unwind(|| $t::from_name("不存在").get_index()).is_ok() { $iss.push(format!("{} unknown accepted", stringify!($t))); }
}}; }
fn main(){ panic::set_hook(Box::new(|_| {}));
  let mut iss: Vec<String>=vec![]; let mut total=0;
  macro_rules! both { ($t:ident, $names:expr) => { total+=cyc!($t,$names,iss,true); named!($t,$names,iss); } }
  both!(Animal, ANIMAL_NAMES); both!(Beast,BEAST_NAMES); both!(Constellation,CONSTELLATION_NAMES); both!(Direction,DIRECTION_NAMES); both!(Duty,DUTY_NAMES); both!(Element,ELEMENT_NAMES); both!(God,GOD_NAMES); both!(Land,LAND_NAMES); both!(Luck,LUCK_NAMES); both!(Phase,PHASE_NAMES); both!(Sixty,SIXTY_NAMES); both!(Sound,SOUND_NAMES); both!(Taboo,TABOO_NAMES); both!(Ten,TEN_NAMES); both!(Terrain,TERRAIN_NAMES); both!(Twenty,TWENTY_NAMES); both!(Week,WEEK_NAMES); both!(Zodiac,ZODIAC_NAMES); both!(Zone,ZONE_NAMES);
  both!(Dog,DOG_NAMES); both!(Nine,NINE_NAMES); both!(Phenology,PHENOLOGY_NAMES); both!(ThreePhenology,THREE_PHENOLOGY_NAMES); both!(PlumRain,PLUM_RAIN_NAMES); both!(MinorRen,tyme4rs::tyme::culture::ren::minor::SIX_STAR_NAMES);
  both!(Dipper,DIPPER_NAMES); both!(NineStar,NINE_STAR_NAMES); both!(SevenStar,SEVEN_STAR_NAMES); both!(SixStar,tyme4rs::tyme::culture::star::six::SIX_STAR_NAMES); both!(TenStar,TEN_STAR_NAMES); both!(Ecliptic,ECLIPTIC_NAMES); both!(TwelveStar,TWELVE_STAR_NAMES); both!(TwentyEightStar,TWENTY_EIGHT_STAR_NAMES);
  both!(HeavenStem,HEAVEN_STEM_NAMES); both!(EarthBranch,EARTH_BRANCH_NAMES); both!(SixtyCycle,SIXTY_CYCLE_NAMES); both!(LunarSeason,tyme4rs::tyme::lunar::LUNAR_SEASON_NAMES);
  both!(PengZuHeavenStem,PENG_ZU_HEAVEN_STEM_NAMES); both!(PengZuEarthBranch,PENG_ZU_EARTH_BRANCH_NAMES);
  total+=cyc!(FetusHeavenStem,FETUS_HEAVEN_STEM_NAMES,iss,false); total+=cyc!(FetusEarthBranch,FETUS_EARTH_BRANCH_NAMES,iss,false); total+=cyc!(FetusMonth,FETUS_MONTH_NAMES,iss,false);
  println!("steps checked={total} issues={}", iss.len()); for i in iss.iter().take(20){println!("  {i}");}
}
