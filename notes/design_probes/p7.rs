use tyme4rs::tyme::solar::*;
use tyme4rs::tyme::lunar::*;
use tyme4rs::tyme::Tyme;
use std::time::Instant;
use std::panic;
fn jdn(d: &SolarDay) -> i64 { (d.get_julian_day().get_day()+0.5) as i64 }
struct Rng(u64); impl Rng { fn next(&mut self)->u64{ self.0^=self.0<<13; self.0^=self.0>>7; self.0^=self.0<<17; self.0 } fn range(&mut self, a:i64,b:i64)->i64{ a + (self.next()%((b-a+1) as u64)) as i64 } }
fn main() {
  panic::set_hook(Box::new(|_| {}));
  let t0=Instant::now(); let mut rng=Rng(88172645463325252);
  let mut issues=vec![]; let mut n=0u64;
  let mut months: Vec<(isize,usize)> = vec![(1582,8),(1582,9),(1582,10),(1582,11),(1582,12),(1583,1),(2,1),(9998,12)];
  for _ in 0..3000 { months.push((rng.range(2,9998) as isize, rng.range(1,12) as usize)); }
  for (y,m) in months { for start in 0..7usize {
    let wc = SolarMonth::from_ym(y,m).get_week_count(start);
    for i in 0..wc {
      let r = panic::catch_unwind(|| { let mut iss=vec![];
        let w = SolarWeek::from_ym(y,m,i,start); let f=jdn(&w.get_first_day());
        for nn in [-60isize,-53,-10,-6,-5,-4,-3,-2,-1,0,1,2,3,4,5,6,10,53,60] {
          let fy = w.get_first_day().next(nn*7).get_year(); if fy<2 || fy>9998 { continue; }
          let x = w.next(nn); let fx=jdn(&x.get_first_day());
          if fx != f + 7*nn as i64 { iss.push(format!("{y}-{m} s{start} i{i} next({nn}) moved {} days", fx-f)); }
        }
        // index in year: weeks from the one containing Jan 1
        let jan1 = jdn(&SolarDay::from_ymd(y,1,1));
        let wd = (jan1+1).rem_euclid(7); // weekday
        let off = (wd - start as i64).rem_euclid(7);
        let first_week_start = jan1 - off;
        let want = (f - first_week_start)/7;
        if f >= first_week_start { let got = w.get_index_in_year() as i64; if got!=want { iss.push(format!("{y}-{m} s{start} i{i} index_in_year {got} want {want}")); } }
        iss });
      n+=1;
      match r { Err(_)=>issues.push(format!("{y}-{m} s{start} i{i} PANIC")), Ok(v)=>issues.extend(v) }
    }
  }}
  println!("solar weeks={n} issues={} t={:?}", issues.len(), t0.elapsed());
  for i in issues.iter().filter(|s| !s.starts_with("2-1 ") && !s.starts_with("9998-12")).take(20) { println!("  {i}"); }
  // lunar weeks
  let mut issues=vec![]; let mut n=0u64;
  let mut lms: Vec<(isize,isize)> = vec![(2020,4),(2020,-4),(2020,5),(2033,11),(2033,-11),(2033,12),(1582,9),(1582,10)];
  for _ in 0..1500 { let y=rng.range(30,9990) as isize; let mut m=rng.range(1,12) as isize; let lm=LunarYear::from_year(y).get_leap_month() as isize; if lm>0 && rng.range(0,3)==0 { m=-lm; } lms.push((y,m)); }
  for (y,m) in lms { for start in 0..7usize {
    let r = panic::catch_unwind(|| { let mut iss=vec![];
      let lm = LunarMonth::from_ym(y,m); let wc=lm.get_week_count(start); let weeks=lm.get_weeks(start);
      if weeks.len()!=wc { iss.push("len".to_string()); }
      let first = lm.get_first_julian_day().get_day() as i64; let last = first + lm.get_day_count() as i64 - 1;
      let mut covered=std::collections::BTreeSet::new(); let mut prev:Option<i64>=None;
      for (i,w) in weeks.iter().enumerate() {
        let fd = w.get_first_day(); let f = jdn(&fd.get_solar_day());
        if fd.get_week().get_index()!=start { iss.push(format!("L{y}/{m} s{start} w{i} weekday")); }
        let ds=w.get_days(); for k in 0..7 { let j=jdn(&ds[k].get_solar_day()); if j!=f+k as i64 { iss.push(format!("L{y}/{m} s{start} w{i} nonconsec")); } covered.insert(j); }
        if let Some(p)=prev { if f!=p+7 { iss.push("not+7".into()); } } prev=Some(f);
        if f+6<first || f>last { iss.push(format!("L{y}/{m} s{start} w{i} outside")); }
        for nn in [-60isize,-7,-6,-5,-4,-3,-2,-1,0,1,2,3,4,5,6,7,60] { let x=w.next(nn); let fx=jdn(&x.get_first_day().get_solar_day()); if fx!=f+7*nn as i64 { iss.push(format!("L{y}/{m} s{start} w{i} next({nn}) moved {}", fx-f)); } }
      }
      for d in first..=last { if !covered.contains(&d) { iss.push(format!("L{y}/{m} s{start} uncovered")); break; } }
      iss });
    n+=1;
    match r { Err(_)=>issues.push(format!("L{y}/{m} s{start} PANIC")), Ok(v)=>issues.extend(v) }
  }}
  println!("lunar month-starts={n} issues={} t={:?}", issues.len(), t0.elapsed());
  for i in issues.iter().take(20) { println!("  {i}"); }
}
