use tyme4rs::tyme::solar::*;
use tyme4rs::tyme::eightchar::*;
use tyme4rs::tyme::Tyme;
use tyme4rs::tyme::Culture;
use std::time::Instant;
use std::panic;
struct Rng(u64); impl Rng { fn next(&mut self)->u64{ self.0^=self.0<<13; self.0^=self.0>>7; self.0^=self.0<<17; self.0 } fn range(&mut self, a:i64,b:i64)->i64{ a + (self.next()%((b-a+1) as u64)) as i64 } }
fn main() {
  panic::set_hook(Box::new(|_| {}));
  let t0=Instant::now(); let mut rng=Rng(0x1234567887654321);
  let mut issues=vec![]; let mut n=0; let mut found=0; let mut skipped=0;
  for _ in 0..3000 {
    let y=rng.range(2,9990) as isize; let m=rng.range(1,12) as usize; let dc=SolarMonth::from_ym(y,m).get_day_count(); let mut d=rng.range(1,dc as i64) as usize; if y==1582&&m==10&&d>4 {d+=10;}
    let (h,mi,s)=(rng.range(0,23) as usize, rng.range(0,59) as usize, rng.range(0,59) as usize);
    let t=SolarTime::from_ymd_hms(y,m,d,h,mi,s);
    let r=panic::catch_unwind(|| {
      let ec = t.get_lunar_hour().get_eight_char();
      let sch = t.get_sixty_cycle_hour();
      let mut iss=vec![];
      if ec.get_year()!=sch.get_year()||ec.get_month()!=sch.get_month()||ec.get_day()!=sch.get_day()||ec.get_hour()!=sch.get_sixty_cycle() { iss.push(format!("{} compose", t)); }
      // does the double-hour contain a jie instant? double hour start
      let a0 = if h==23 {t.next(-((mi*60+s) as isize))} else { let hs = if h%2==1 {h} else {h-1+0}; let _=hs; t }; let _=a0;
      let lo=(y-1).max(1); let hi=(y+1).min(9999);
      let l = ec.get_solar_times(lo, hi);
      let mut ok_all=true; for x in l.iter() { if x.get_lunar_hour().get_eight_char()!=ec { ok_all=false; } }
      if !ok_all { iss.push(format!("{} returned wrong", t)); }
      // double-hour window of t: [start,end)
      let sod=(h*3600+mi*60+s) as isize; let start_off = if h==23 { 23*3600 } else if h==0 { 0 } else { ((h+1)/2*2-1) as isize*3600 } ; let end_off = if h==23 {86400} else if h==0 {3600} else {start_off+7200};
      let ws=t.next(start_off-sod); let we=t.next(end_off-sod-1);
      // skip if ec not constant over the window (jie inside)
      let const_ = ws.get_lunar_hour().get_eight_char()==ec && we.get_lunar_hour().get_eight_char()==ec;
      let inwin = l.iter().any(|x| !x.is_before(ws) && !x.is_after(we));
      (iss, const_, inwin, l.len())
    });
    n+=1;
    match r { Err(_)=>issues.push(format!("PANIC {}", t)), Ok((iss,c,inw,len))=>{ issues.extend(iss); if !c {skipped+=1;} else if !inw { issues.push(format!("{} not found (returned {len})", t)); } else {found+=1;} } }
  }
  println!("n={n} found={found} skipped={skipped} issues={} t={:?}", issues.len(), t0.elapsed()); for i in issues.iter().take(15){println!("  {i}");}
}
