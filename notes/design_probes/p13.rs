use tyme4rs::tyme::solar::*;
use tyme4rs::tyme::util::ShouXingUtil;
use tyme4rs::tyme::lunar::*;
use tyme4rs::tyme::Tyme;
const D2R: f64 = std::f64::consts::PI/180.0;
fn norm(x:f64)->f64{ x.rem_euclid(360.0) }
// Meeus ch.25 low accuracy apparent solar longitude, jde = TT julian day
fn sun_app_lon(jde:f64)->f64{
  let t=(jde-2451545.0)/36525.0;
  let l0=280.46646+36000.76983*t+0.0003032*t*t;
  let m=(357.52911+35999.05029*t-0.0001537*t*t)*D2R;
  let c=(1.914602-0.004817*t-0.000014*t*t)*m.sin()+(0.019993-0.000101*t)*(2.0*m).sin()+0.000289*(3.0*m).sin();
  let om=(125.04-1934.136*t)*D2R;
  norm(l0+c-0.00569-0.00478*om.sin())
}
// Meeus ch.47 truncated moon longitude (main terms), geocentric apparent approx
fn moon_lon(jde:f64)->f64{
  let t=(jde-2451545.0)/36525.0;
  let lp=218.3164477+481267.88123421*t-0.0015786*t*t+t*t*t/538841.0-t*t*t*t/65194000.0;
  let d=(297.8501921+445267.1114034*t-0.0018819*t*t+t*t*t/545868.0-t*t*t*t/113065000.0)*D2R;
  let m=(357.5291092+35999.0502909*t-0.0001536*t*t+t*t*t/24490000.0)*D2R;
  let mp=(134.9633964+477198.8675055*t+0.0087414*t*t+t*t*t/69699.0-t*t*t*t/14712000.0)*D2R;
  let f=(93.2720950+483202.0175233*t-0.0036539*t*t-t*t*t/3526000.0+t*t*t*t/863310000.0)*D2R;
  let e=1.0-0.002516*t-0.0000074*t*t;
  let a1=(119.75+131.849*t)*D2R; let a2=(53.09+479264.290*t)*D2R;
  // (D, M, M', F, coeff in 1e-6 deg)
  let terms: [(f64,f64,f64,f64,f64);40]=[
   (0.,0.,1.,0.,6288774.),(2.,0.,-1.,0.,1274027.),(2.,0.,0.,0.,658314.),(0.,0.,2.,0.,213618.),(0.,1.,0.,0.,-185116.),(0.,0.,0.,2.,-114332.),
   (2.,0.,-2.,0.,58793.),(2.,-1.,-1.,0.,57066.),(2.,0.,1.,0.,53322.),(2.,-1.,0.,0.,45758.),(0.,1.,-1.,0.,-40923.),(1.,0.,0.,0.,-34720.),
   (0.,1.,1.,0.,-30383.),(2.,0.,0.,-2.,15327.),(0.,0.,1.,2.,-12528.),(0.,0.,1.,-2.,10980.),(4.,0.,-1.,0.,10675.),(0.,0.,3.,0.,10034.),
   (4.,0.,-2.,0.,8548.),(2.,1.,-1.,0.,-7888.),(2.,1.,0.,0.,-6766.),(1.,0.,-1.,0.,-5163.),(1.,1.,0.,0.,4987.),(2.,-1.,1.,0.,4036.),
   (2.,0.,2.,0.,3994.),(4.,0.,0.,0.,3861.),(2.,0.,-3.,0.,3665.),(0.,1.,-2.,0.,-2689.),(2.,0.,-1.,2.,-2602.),(2.,-1.,-2.,0.,2390.),
   (1.,0.,1.,0.,-2348.),(2.,-2.,0.,0.,2236.),(0.,1.,2.,0.,-2120.),(0.,2.,0.,0.,-2069.),(2.,-2.,-1.,0.,2048.),(2.,0.,1.,-2.,-1773.),
   (2.,0.,0.,2.,-1595.),(4.,-1.,-1.,0.,1215.),(0.,0.,2.,2.,-1110.),(3.,0.,-1.,0.,-892.)];
  let mut s=0.0; for (cd,cm,cmp,cf,co) in terms.iter() { let arg=cd*d+cm*m+cmp*mp+cf*f; let ef= if cm.abs()==1.0 {e} else if cm.abs()==2.0 {e*e} else {1.0}; s+=co*ef*arg.sin(); }
  s+=3958.0*a1.sin()+1962.0*(lp*D2R-f).sin()+318.0*a2.sin();
  // nutation in longitude approx
  let om=(125.04452-1934.136261*t)*D2R; let ls=(280.4665+36000.7698*t)*D2R; let lm=(218.3165+481267.8813*t)*D2R;
  let dpsi=(-17.20*om.sin()-1.32*(2.0*ls).sin()-0.23*(2.0*lm).sin()+0.21*(2.0*om).sin())/3600.0;
  norm(lp+s/1e6+dpsi)
}
fn main(){
  // compare term instants 1900..2150
  let mut maxe:f64=0.0; let mut sum=0.0; let mut n=0;
  for y in 1900..=2150isize { for i in 0..24isize {
    let t=SolarTerm::from_index(y,i); let jd_ut8=t.get_julian_day().get_day(); // UTC+8 civil JD
    let jd_ut=jd_ut8-8.0/24.0; let yy=(jd_ut-2451545.0)/365.2425+2000.0; let dt=ShouXingUtil::dt_calc(yy)/86400.0; let jde=jd_ut+dt;
    let target=norm(270.0+15.0*i as f64); let lon=sun_app_lon(jde); let mut e=lon-target; if e>180.0{e-=360.0} if e< -180.0 {e+=360.0}
    let esec=e/0.98565*86400.0; if esec.abs()>maxe.abs(){maxe=esec;} sum+=esec; n+=1;
  }}
  println!("terms n={n} max err {:.0}s mean {:.1}s", maxe, sum/n as f64);
  // new moons: lunar month first day vs conjunction: find conjunction near first day using own theory by bisection
  let mut n=0; let mut daymis=0; let mut maxe:f64=0.0;
  for y in 1900..=2150isize { for m in LunarYear::from_year(y).get_months() {
    let fj=m.get_first_julian_day().get_day(); // noon of first day (UTC+8)
    // search conjunction in [fj-1.5, fj+1.5] UT8
    let elong=|jd8:f64|{ let jd_ut=jd8-8.0/24.0; let yy=(jd_ut-2451545.0)/365.2425+2000.0; let jde=jd_ut+ShouXingUtil::dt_calc(yy)/86400.0; let mut e=moon_lon(jde)-sun_app_lon(jde); e=norm(e); if e>180.0{e-=360.0} e };
    let (mut a,mut b)=(fj-2.0,fj+2.0); if elong(a)>0.0||elong(b)<0.0 { println!("bracket fail {y} {}", m.get_month_with_leap()); continue; }
    for _ in 0..50 { let c=(a+b)/2.0; if elong(c)<0.0 {a=c}else{b=c} }
    let conj=(a+b)/2.0; let day=(conj+0.5).floor(); // civil day number (noon jd integer)
    n+=1; if day!=fj { daymis+=1; let off=((conj+0.5)-(conj+0.5).floor())*86400.0; let dist= off.min(86400.0-off); if dist>maxe{maxe=dist;} }
    // also compare against library's precise conjunction
    let w=((fj-2451545.0+8.0-4.0)/29.5306).floor(); let _=w;
  }}
  println!("lunations n={n} day mismatches {daymis} (max distance from midnight of mismatching {maxe:.0}s)");
}
