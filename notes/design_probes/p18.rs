use tyme4rs::tyme::util::ShouXingUtil as U;
use std::f64::consts::PI;
fn main(){
  for mil in -10..10 { let mut maxm:f64=0.0; let mut maxs:f64=0.0;
    let k0=(mil as f64*1000.0*365.2422/29.5306) as i64; let k1=((mil+1) as f64*1000.0*365.2422/29.5306) as i64;
    for k in k0..k1 { let w=k as f64*2.0*PI; let t=U::m_sa_lon_t(w); let r=(U::m_sa_lon(t,-1,-1)-w).abs(); if r>maxm{maxm=r;} }
    for k in (mil*24000)..((mil+1)*24000) { let w=k as f64*PI/12.0; let t=U::sa_lon_t(w); let r=(U::sa_lon(t,-1)-w).abs(); if r>maxs{maxs=r;} }
    println!("millennium {:+} (years {}..{}): moon max {:.4}\" sun max {:.4}\"", mil, 2000+mil*1000, 3000+mil*1000, maxm*206265.0, maxs*206265.0); }
}
