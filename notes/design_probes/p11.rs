use tyme4rs::tyme::culture::*;
use tyme4rs::tyme::sixtycycle::*;
use tyme4rs::tyme::lunar::*;
use tyme4rs::tyme::Tyme;
use tyme4rs::tyme::Culture;
use std::panic;
fn main() {
  panic::set_hook(Box::new(|_| {}));
  let mut issues=vec![]; let mut n=0; let mut mingods=99; let mut maxgods=0; let mut empties=0;
  for mb in 0..12isize { for d in 0..60isize {
    // month pillar with branch mb: any stem consistent
    let month = SixtyCycle::from_index((0..60).find(|c| c%12==mb).unwrap());
    let day = SixtyCycle::from_index(d);
    let r = panic::catch_unwind(|| { let mut iss=vec![];
      let gods = God::get_day_gods(month.clone(), day.clone());
      if gods.is_empty() { iss.push(format!("no gods mb{mb} d{d}")); }
      let rec = Taboo::get_day_recommends(month.clone(), day.clone()); let avo = Taboo::get_day_avoids(month.clone(), day.clone());
      for a in &rec { if avo.iter().any(|b| b.get_name()==a.get_name()) { iss.push(format!("both mb{mb} d{d} {}", a.get_name())); } }
      (iss, gods.len(), rec.len(), avo.len()) });
    n+=1; match r { Err(_)=>issues.push(format!("PANIC mb{mb} d{d}")), Ok((v,g,r_,a_))=>{ issues.extend(v); if g<mingods {mingods=g;} if g>maxgods{maxgods=g;} if r_==0||a_==0 {empties+=1;} } }
  }}
  println!("day pairs={n} issues={} gods {mingods}..{maxgods} empties={empties}", issues.len()); for i in issues.iter().take(20){println!("  {i}");}
  let mut issues=vec![]; let mut n=0;
  for d in 0..60isize { for hb in 0..12isize {
    let day=SixtyCycle::from_index(d); let hour=SixtyCycle::from_index((0..60).find(|c| c%12==hb).unwrap());
    let r = panic::catch_unwind(|| { let mut iss=vec![];
      let rec = Taboo::get_hour_recommends(day.clone(), hour.clone()); let avo = Taboo::get_hour_avoids(day.clone(), hour.clone());
      for a in &rec { if avo.iter().any(|b| b.get_name()==a.get_name()) { iss.push(format!("both d{d} h{hb} {}", a.get_name())); } }
      iss });
    n+=1; match r { Err(_)=>issues.push(format!("PANIC d{d} h{hb}")), Ok(v)=>issues.extend(v) }
  }}
  println!("hour pairs={n} issues={}", issues.len()); for i in issues.iter().take(20){println!("  {i}");}
  // kitchen god
  let mut bad=0; for y in -1..=9999isize { let r=panic::catch_unwind(|| { let k=KitchenGodSteed::from_lunar_year(y); k.get_mouse() }); if r.is_err() { bad+=1; if bad<5 { println!("kitchen panic year {y}"); } } }
  println!("kitchen bad={bad}");
  // hex index ranges: GOD_NAMES len 151, TABOO len 141
  println!("god names {} taboo names {}", GOD_NAMES.len(), TABOO_NAMES.len());
}
