use tyme4rs::tyme::lunar::*;
use tyme4rs::tyme::Tyme;
fn main() {
  for y in [0isize,1,2] {
    let ly = LunarYear::from_year(y);
    print!("Y{y} leap={} :", ly.get_leap_month());
    let mut ms: Vec<isize> = (1..=12).collect();
    let lm = ly.get_leap_month() as isize; if lm>0 { ms.insert(lm as usize, -lm); }
    for m in ms { let mm = LunarMonth::from_ym(y, m); print!(" {}:jd{}({})", m, mm.get_first_julian_day().get_day(), mm.get_day_count()); }
    println!();
  }
  println!("{}", tyme4rs::tyme::solar::SolarDay::from_ymd(1,1,1).get_julian_day().get_day());
}
