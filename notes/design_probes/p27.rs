use tyme4rs::tyme::lunar::*; use std::sync::{Arc,Barrier}; use std::thread; use std::sync::atomic::Ordering;
fn main(){
  for yields in [0usize, 50] { let mut tot_double=0; let mut rounds_with=0;
    for round in 0..20 { verif_reset(); VERIF_YIELDS.store(yields, Ordering::SeqCst);
      let b=Arc::new(Barrier::new(16));
      let hs: Vec<_>=(0..16).map(|t| { let b=b.clone(); thread::spawn(move || { b.wait(); let mut out=vec![]; for k in 0..200usize { let y=(100+ (k*7+round*13)%150) as isize; let m=((k + t%2)%12+1) as isize; let lm=LunarMonth::from_ym(y,m); out.push((y,m,lm.get_day_count(),lm.get_first_julian_day().get_day() as i64)); } out }) }).collect();
      let res: Vec<_>=hs.into_iter().map(|h| h.join().unwrap()).collect();
      let misses=VERIF_MISSES.load(Ordering::SeqCst) as usize; let len=verif_len(); let d=misses-len; tot_double+=d; if d>0 {rounds_with+=1;}
      // compare against cold
      let _=res;
    }
    println!("yields={yields}: double-computes total {tot_double} in {rounds_with}/20 rounds");
  }
}
