use tyme4rs::tyme::solar::*;
use tyme4rs::tyme::lunar::*;
use tyme4rs::tyme::Tyme;
use std::time::Instant;
use std::panic;

fn main() {
  panic::set_hook(Box::new(|_| {}));
  let t0 = Instant::now();
  let first = SolarDay::from_ymd(1,1,1);
  let total = SolarDay::from_ymd(9999,12,31).subtract(first);
  let mut n=0u64; let mut panics: Vec<String> = vec![]; let mut rt: Vec<String> = vec![]; let mut cont: Vec<String>=vec![];
  let mut prev: Option<(isize,isize,usize,usize)> = None; // y, m, d, daycount
  for i in 0..=total {
    let sd = first.next(i);
    let r = panic::catch_unwind(|| { let l = sd.get_lunar_day(); let b = l.get_solar_day(); (l.get_year(), l.get_month(), l.get_day(), l.get_lunar_month().get_day_count(), b) });
    match r {
      Err(_) => { panics.push(sd.to_string()); prev=None; }
      Ok((y,m,d,dc,b)) => {
        if b != sd { rt.push(format!("{} -> L{}/{}/{} -> {}", sd, y,m,d,b)); }
        if let Some((py,pm,pd,pdc)) = prev {
          let ok = (y==py && m==pm && d==pd+1) || (d==1 && pd==pdc && !(y==py&&m==pm));
          if !ok { cont.push(format!("{}: L{}/{}/{}(dc{}) then L{}/{}/{}", sd, py,pm,pd,pdc,y,m,d)); }
        }
        prev=Some((y,m,d,dc));
      }
    }
    n+=1;
  }
  println!("n={n} panics={} rt_fail={} cont_fail={} elapsed={:?}", panics.len(), rt.len(), cont.len(), t0.elapsed());
  let show = |v: &Vec<String>, name: &str| { println!("--{name}: first/last: {:?} .. {:?}", v.first(), v.last()); 
    // summarize by year
    let mut years: std::collections::BTreeMap<String,usize> = Default::default();
    for s in v { let y = s.split('年').next().unwrap().to_string(); *years.entry(y).or_default()+=1; }
    println!("   by year: {:?}", years);
  };
  show(&panics,"panics"); show(&rt,"roundtrip"); show(&cont,"continuity");
  for s in cont.iter().take(40) { println!("   {s}"); }
}
