use tyme4rs::tyme::solar::*; use tyme4rs::tyme::lunar::*; use tyme4rs::tyme::sixtycycle::*; use tyme4rs::tyme::{Tyme,Culture};
use std::panic;
struct Rng(u64); impl Rng { fn next(&mut self)->u64{ self.0^=self.0<<13; self.0^=self.0>>7; self.0^=self.0<<17; self.0 } fn range(&mut self, a:i64,b:i64)->i64{ a + (self.next()%((b-a+1) as u64)) as i64 } }
fn jdn(d:&SolarDay)->i64{ (d.get_julian_day().get_day()+0.5) as i64 }
fn termday(y:isize,i:isize)->i64{ let jd=SolarTerm::from_index(y,i).get_julian_day().get_day(); (jd+0.5+0.5/86400.0).floor() as i64 }
fn main(){ panic::set_hook(Box::new(|_| {})); let mut rng=Rng(0x0F0F0F0F12344321); let mut iss=vec![]; let mut n=0;
  for _ in 0..3000 { let y=rng.range(30,9990) as isize; let m=rng.range(1,12) as usize; let dc=SolarMonth::from_ym(y,m).get_day_count(); let mut d=rng.range(1,dc as i64) as usize; if y==1582&&m==10&&d>4{d+=10;} let sd=SolarDay::from_ymd(y,m,d);
    let r=panic::catch_unwind(|| { let mut v=vec![]; let ld=sd.get_lunar_day(); let hs=ld.get_hours(); let want:[usize;13]=[0,1,3,5,7,9,11,13,15,17,19,21,23];
      if hs.len()!=13 { v.push(format!("{} lunar hours len {}", sd, hs.len())); } else { for (k,h) in hs.iter().enumerate() { if h.get_hour()!=want[k]||h.get_minute()!=0||h.get_second()!=0||h.get_lunar_day()!=ld { v.push(format!("{} lunar hour {k}", sd)); } if h.get_index_in_day()!=(want[k]+1)/2 { v.push(format!("{} idx", sd)); } } }
      let scd=sd.get_sixty_cycle_day(); let hh=scd.get_hours(); if hh.len()!=12 { v.push(format!("{} sc hours len", sd)); } else { let base=(jdn(&sd)-1)*86400+23*3600; for (k,h) in hh.iter().enumerate() { let t=h.get_solar_time(); let a=jdn(&t.get_solar_day())*86400+(t.get_hour()*3600+t.get_minute()*60+t.get_second()) as i64; if a!=base+k as i64*7200 { v.push(format!("{} sc hour {k} at {}", sd, t)); } if h.get_day().get_index() as i64!=(jdn(&sd)+49).rem_euclid(60) { v.push(format!("{} sc hour {k} day pillar", sd)); } if h.get_index_in_day()!=k { v.push(format!("{} sc hour {k} index {}", sd,h.get_index_in_day())); } } }
      v }); n+=1; match r { Ok(v)=>iss.extend(v), Err(_)=>iss.push(format!("PANIC {}", sd)) } }
  println!("days n={n} issues={}", iss.len()); for i in iss.iter().take(10){println!("  {i}");}
  let mut iss=vec![]; let mut n=0;
  for _ in 0..150 { let y=rng.range(30,9990) as isize; let sy=SixtyCycleYear::from_year(y); let ms=sy.get_months(); if ms.len()!=12 { iss.push(format!("{y} months len")); }
    for (k,m) in ms.iter().enumerate() { n+=1; let r=panic::catch_unwind(|| { let mut v=vec![]; if m.get_index_in_year()!=k { v.push(format!("{y} m{k} index")); } let start=termday(y,3+2*k as isize); let end=termday(y,5+2*k as isize); let ds=m.get_days(); if ds.len() as i64!=end-start { v.push(format!("{y} m{k} days {} want {}", ds.len(), end-start)); } for (q,d) in ds.iter().enumerate() { if jdn(&d.get_solar_day())!=start+q as i64 { v.push(format!("{y} m{k} day {q}")); break; } } if jdn(&m.get_first_day().get_solar_day())!=start { v.push(format!("{y} m{k} first day")); } v }); match r { Ok(v)=>iss.extend(v), Err(_)=>iss.push(format!("PANIC {y} m{k}")) } } }
  println!("sc months n={n} issues={}", iss.len()); for i in iss.iter().take(10){println!("  {i}");}
}
