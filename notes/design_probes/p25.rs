// C08 time view around Jie instants + random instants
use tyme4rs::tyme::solar::*;
use tyme4rs::tyme::{Tyme,Culture};
use std::panic;
struct Rng(u64); impl Rng { fn next(&mut self)->u64{ self.0^=self.0<<13; self.0^=self.0>>7; self.0^=self.0<<17; self.0 } fn range(&mut self, a:i64,b:i64)->i64{ a + (self.next()%((b-a+1) as u64)) as i64 } }
fn abs_sec(t:&SolarTime)->i64 { let j=(t.get_solar_day().get_julian_day().get_day()+0.5) as i64; j*86400 + (t.get_hour()*3600+t.get_minute()*60+t.get_second()) as i64 }
fn main(){ panic::set_hook(Box::new(|_| {}));
  let args: Vec<String> = std::env::args().collect(); let y0: isize=args[1].parse().unwrap(); let y1: isize=args[2].parse().unwrap();
  let mut rng=Rng(0x5555AAAA12345678); let mut iss=vec![]; let mut n=0;
  // term instants (seconds) list
  let mut terms: Vec<(i64,isize,usize)>=vec![]; for y in (y0-1)..=(y1+1) { for i in 0..24 { let t=SolarTerm::from_index(y,i).get_julian_day().get_solar_time(); terms.push((abs_sec(&t),y,i as usize)); } }
  let want=|a:i64| -> (usize,usize) { let mut ti=0; for (q,(t,_,_)) in terms.iter().enumerate() { if *t<=a {ti=q;} else {break;} } let (_,ty,tidx)=terms[ti]; let sy= if tidx>=3 {ty} else {ty-1}; let mnum: isize= if tidx>=3 {((tidx as isize)-3)/2} else if tidx>=1 {11} else {10}; let ystem=(sy-4).rem_euclid(10); let mstem=((ystem%5)*2+2+mnum).rem_euclid(10); let mb=(2+mnum).rem_euclid(12); let mut wm=0; for c in 0..60 { if c%10==mstem as usize && c%12==mb as usize {wm=c;} } ((sy-4).rem_euclid(60) as usize, wm) };
  let mut check=|t: SolarTime, iss:&mut Vec<String>| { let a=abs_sec(&t); let r=panic::catch_unwind(|| { let h=t.get_sixty_cycle_hour(); (h.get_year().get_index(), h.get_month().get_index(), h.get_day().get_index()) }); match r { Err(_)=>iss.push(format!("PANIC {}", t)), Ok((yi,mi,di))=>{ let (wy,wm)=want(a); if yi!=wy { iss.push(format!("YEAR {} got {yi} want {wy}", t)); } if mi!=wm { iss.push(format!("MONTH {} got {mi} want {wm}", t)); } let dn=a.div_euclid(86400)+ if t.get_hour()==23 {1} else {0}; if di as i64!=(dn+49).rem_euclid(60) { iss.push(format!("DAY {} got {di}", t)); } } } };
  for y in y0..=y1 { for i in (1..24).step_by(2) { let t=SolarTerm::from_index(y,i as isize).get_julian_day().get_solar_time(); for d in [-1isize,0,1] { n+=1; check(t.next(d), &mut iss); } }
    for _ in 0..20 { let m=rng.range(1,12) as usize; let dc=SolarMonth::from_ym(y,m).get_day_count(); let mut d=rng.range(1,dc as i64) as usize; if y==1582&&m==10&&d>4 {d+=10;} let hh=[0,1,11,22,23,23][rng.range(0,5) as usize]; n+=1; check(SolarTime::from_ymd_hms(y,m,d,hh,rng.range(0,59) as usize,rng.range(0,59) as usize), &mut iss); }
    for (m,d) in [(1,1),(12,31),(2,3),(2,4),(2,5)] { for hh in [0,23] { n+=1; check(SolarTime::from_ymd_hms(y,m,d,hh,30,0), &mut iss); } }
  }
  println!("[{y0}-{y1}] instants={n} issues={}", iss.len()); for i in iss.iter().take(12){println!("  {i}");}
}
