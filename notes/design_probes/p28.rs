// C19 probe: rule-based independent encodings vs library
use tyme4rs::tyme::sixtycycle::*; use tyme4rs::tyme::culture::*; use tyme4rs::tyme::culture::fetus::*; use tyme4rs::tyme::culture::star::twenty_eight::*; use tyme4rs::tyme::culture::star::nine::*;
use tyme4rs::tyme::solar::*; use tyme4rs::tyme::eightchar::*; use tyme4rs::tyme::enums::*; use tyme4rs::tyme::{Tyme,Culture};
const STEMS:[&str;10]=["甲","乙","丙","丁","戊","己","庚","辛","壬","癸"]; const BR:[&str;12]=["子","丑","寅","卯","辰","巳","午","未","申","酉","戌","亥"];
fn st(n:&str)->usize{STEMS.iter().position(|x|*x==n).unwrap()} fn br(n:&str)->usize{BR.iter().position(|x|*x==n).unwrap()}
fn main(){ let mut iss: Vec<String>=vec![]; let mut n=0;
  let stem_el=["木","木","火","火","土","土","金","金","水","水"]; let br_el=["水","土","木","木","土","火","火","土","金","金","土","水"];
  let el_dir=[("木","东"),("火","南"),("土","中"),("金","西"),("水","北")];
  let gen=[("木","火"),("火","土"),("土","金"),("金","水"),("水","木")]; let over=[("木","土"),("土","水"),("水","火"),("火","金"),("金","木")];
  let joy=["东北","西北","西南","南","东南"]; // 甲己艮 乙庚乾 丙辛坤 丁壬离 戊癸巽
  let yang=[("甲","西南"),("戊","东北"),("乙","西南"),("己","北"),("庚","南"),("辛","东北"),("丙","西"),("丁","西北"),("壬","东"),("癸","东南")];
  let br_dir24=["北","东北","东北","东","东南","东南","南","西南","西南","西","西北","西北"];
  let yin_animal=[("甲","丑"),("戊","未"),("乙","子"),("己","申"),("丙","亥"),("丁","酉"),("壬","巳"),("癸","卯"),("庚","寅"),("辛","午")];
  let wealth=["东北","东北","西南","西南","北","北","东","东","南","南"]; let mascot=["东南","东南","东","东","北","南","西南","西南","西北","西"];
  for i in 0..10 { let s=HeavenStem::from_index(i as isize); n+=1;
    if s.get_element().get_name()!=stem_el[i] { iss.push(format!("stem el {i}")); }
    if (s.get_yin_yang()==YinYang::YANG)!=(i%2==0) { iss.push(format!("stem yy {i}")); }
    let d=el_dir.iter().find(|(e,_)| *e==stem_el[i]).unwrap().1; if s.get_direction().get_name()!=d { iss.push(format!("stem dir {i}")); }
    if s.get_joy_direction().get_name()!=joy[i%5] { iss.push(format!("joy {i}")); }
    if s.get_yang_direction().get_name()!=yang.iter().find(|(a,_)| *a==STEMS[i]).unwrap().1 { iss.push(format!("yang {i} {}", s.get_yang_direction().get_name())); }
    let ya=yin_animal.iter().find(|(a,_)| *a==STEMS[i]).unwrap().1; if s.get_yin_direction().get_name()!=br_dir24[br(ya)] { iss.push(format!("yin {i} {} want {}", s.get_yin_direction().get_name(), br_dir24[br(ya)])); }
    if s.get_wealth_direction().get_name()!=wealth[i] { iss.push(format!("wealth {i}")); }
    if s.get_mascot_direction().get_name()!=mascot[i] { iss.push(format!("mascot {i} {}", s.get_mascot_direction().get_name())); }
    if s.get_combine().get_index()!=(i+5)%10 || s.get_combine().get_combine().get_index()!=i { iss.push(format!("combine {i}")); }
    let hua=["土","金","水","木","火"][i%5]; if s.combine(s.get_combine()).map(|e| e.get_name())!=Some(hua.to_string()) { iss.push(format!("hua {i}")); }
    for j in 0..10 { let t=HeavenStem::from_index(j as isize); n+=1; let (a,b)=(stem_el[i],stem_el[j]); let same=(i%2)==(j%2);
      let rel= if a==b {0} else if gen.contains(&(a,b)) {1} else if over.contains(&(a,b)) {2} else if over.contains(&(b,a)) {3} else {4};
      let want=match (rel,same) {(0,true)=>"比肩",(0,false)=>"劫财",(1,true)=>"食神",(1,false)=>"伤官",(2,true)=>"偏财",(2,false)=>"正财",(3,true)=>"七杀",(3,false)=>"正官",(4,true)=>"偏印",(_,_)=>"正印"};
      if s.get_ten_star(t).get_name()!=want { iss.push(format!("tenstar {i} {j} {} want {want}", s.get_ten_star(HeavenStem::from_index(j as isize)).get_name())); } }
    let birth=["亥","午","寅","酉","寅","酉","巳","子","申","卯"][i]; for b in 0..12 { n+=1; let k= if i%2==0 { (b+12-br(birth))%12 } else { (br(birth)+12-b)%12 }; if s.get_terrain(EarthBranch::from_index(b as isize)).get_name()!=TERRAIN_NAMES[k] { iss.push(format!("terrain {i} {b}")); } }
  }
  let hide=[("子","癸",""," "),("丑","己","癸","辛"),("寅","甲","丙","戊"),("卯","乙","",""),("辰","戊","乙","癸"),("巳","丙","庚","戊"),("午","丁","己",""),("未","己","丁","乙"),("申","庚","壬","戊"),("酉","辛","",""),("戌","戊","辛","丁"),("亥","壬","甲","")];
  let zodiac=["鼠","牛","虎","兔","龙","蛇","马","羊","猴","鸡","狗","猪"];
  let liuhe=[("子","丑","土"),("寅","亥","木"),("卯","戌","火"),("辰","酉","金"),("巳","申","水"),("午","未","土")]; let hai=[("子","未"),("丑","午"),("寅","巳"),("卯","辰"),("申","亥"),("酉","戌")];
  let sha=[("巳酉丑","东"),("亥卯未","西"),("申子辰","南"),("寅午戌","北")];
  for i in 0..12 { let b=EarthBranch::from_index(i as isize); n+=1;
    if b.get_element().get_name()!=br_el[i] { iss.push(format!("br el {i}")); }
    let d=el_dir.iter().find(|(e,_)| *e==br_el[i]).unwrap().1; if b.get_direction().get_name()!=d { iss.push(format!("br dir {i} {}", b.get_direction().get_name())); }
    let h=hide[i]; if b.get_hide_heaven_stem_main().get_name()!=h.1 { iss.push(format!("hide main {i}")); }
    if b.get_hide_heaven_stem_middle().map(|x| x.get_name()).unwrap_or_default()!=h.2.trim() { iss.push(format!("hide mid {i}")); }
    if b.get_hide_heaven_stem_residual().map(|x| x.get_name()).unwrap_or_default()!=h.3.trim() { iss.push(format!("hide res {i}")); }
    if b.get_zodiac().get_name()!=zodiac[i] { iss.push(format!("zodiac {i}")); }
    if b.get_opposite().get_index()!=(i+6)%12 { iss.push(format!("opp {i}")); }
    let lh=liuhe.iter().find(|(x,y,_)| *x==BR[i]||*y==BR[i]).unwrap(); let partner= if lh.0==BR[i] {lh.1} else {lh.0}; if b.get_combine().get_name()!=partner || b.combine(b.get_combine()).map(|e| e.get_name())!=Some(lh.2.to_string()) { iss.push(format!("liuhe {i}")); }
    let hh=hai.iter().find(|(x,y)| *x==BR[i]||*y==BR[i]).unwrap(); let hp= if hh.0==BR[i] {hh.1} else {hh.0}; if b.get_harm().get_name()!=hp { iss.push(format!("harm {i}")); }
    let sd=sha.iter().find(|(g,_)| g.contains(BR[i])).unwrap().1; if b.get_ominous().get_name()!=sd { iss.push(format!("sha {i}")); }
  }
  let nayin=["海中金","炉中火","大林木","路旁土","剑锋金","山头火","涧下水","城头土","白蜡金","杨柳木","泉中水","屋上土","霹雳火","松柏木","长流水","沙中金","山下火","平地木","壁上土","金箔金","覆灯火","天河水","大驿土","钗钏金","桑柘木","大溪水","沙中土","天上火","石榴木","大海水"];
  for c in 0..60usize { let sc=SixtyCycle::from_index(c as isize); n+=1; let (s,b)=(c%10,c%12);
    if sc.get_heaven_stem().get_index()!=s || sc.get_earth_branch().get_index()!=b { iss.push(format!("sc parts {c}")); }
    let sv=s/2+1; let bv=[1,1,2,2,3,3,1,1,2,2,3,3][b]; let mut v=sv+bv; if v>5 {v-=5;} let el=["木","金","水","火","土"][v-1];
    let snd=sc.get_sound().get_name(); if snd!=nayin[c/2] || !snd.ends_with(el) { iss.push(format!("nayin {c} {snd} el {el}")); }
    let head=(c/10)*10; if sc.get_ten().get_name()!=SIXTY_CYCLE_NAMES[head] { iss.push(format!("xun {c}")); }
    let used: Vec<usize>=(head..head+10).map(|x| x%12).collect(); let void: Vec<usize>=(0..12).map(|k| (head+10+k)%12).filter(|x| !used.contains(x)).collect(); let ev: Vec<usize>=sc.get_extra_earth_branches().iter().map(|x| x.get_index()).collect(); if ev!=void { iss.push(format!("void {c} {:?} {:?}", ev, void)); }
  }
  // elements
  for (i,e) in ["木","火","土","金","水"].iter().enumerate() { let x=Element::from_index(i as isize); if x.get_name()!=*e { iss.push("el name".into()); }
    if x.get_reinforce().get_name()!=gen.iter().find(|(a,_)| a==e).unwrap().1 || x.get_restrain().get_name()!=over.iter().find(|(a,_)| a==e).unwrap().1 || x.get_reinforced().get_name()!=gen.iter().find(|(_,b)| b==e).unwrap().0 || x.get_restrained().get_name()!=over.iter().find(|(_,b)| b==e).unwrap().0 { iss.push(format!("el cycle {i}")); }
    if x.get_direction().get_name()!=el_dir[i].1 { iss.push(format!("el dir {i}")); } }
  // constellation
  let bounds=[(3,21,"白羊"),(4,20,"金牛"),(5,21,"双子"),(6,22,"巨蟹"),(7,23,"狮子"),(8,23,"处女"),(9,23,"天秤"),(10,24,"天蝎"),(11,23,"射手"),(12,22,"摩羯"),(1,20,"水瓶"),(2,19,"双鱼")];
  for m in 1..=12usize { for d in 1..=SolarMonth::from_ym(2024,m).get_day_count() { n+=1; let key=m*100+d; let mut name="摩羯"; let mut best=0; for (bm,bd,nm) in bounds.iter() { let k=bm*100+bd; if k<=key && k>=best { best=k; name=nm; } } if SolarDay::from_ymd(2024,m,d).get_constellation().get_name()!=name { iss.push(format!("constellation {m}-{d}")); } } }
  // fetus day
  let runs=[("外","东南",2),("外","南",5),("外","西南",6),("外","西",5),("外","西北",6),("外","北",5),("内","北",5),("内","中",2),("内","南",3),("内","西",1),("内","东",4),("内","中",1),("外","东北",6),("外","东",5),("外","东南",4)];
  let mut k=0; for (side,dir,cnt) in runs.iter() { for _ in 0..*cnt { let f=FetusDay::new(SixtyCycle::from_index(k)); n+=1; if f.get_side().get_name()!=*side || f.get_direction().get_name()!=*dir { iss.push(format!("fetus {k} {} {}", f.get_side().get_name(), f.get_direction().get_name())); }
      let hs=["门","碓磨","厨灶","仓库","房床"][(k as usize%10)%5]; let eb=["碓","厕","炉","门","栖","床"][(k as usize%12)%6]; if f.get_fetus_heaven_stem().get_name()!=hs || f.get_fetus_earth_branch().get_name()!=eb { iss.push(format!("fetus parts {k}")); } k+=1; } }
  // 28 mansions
  let animals="蛟龙貉兔狐虎豹獬牛蝠鼠燕猪獝狼狗彘鸡乌猴猿犴羊獐马鹿蛇蚓"; let seven="木金土日月火水"; let lands=[("钧天",3),("苍天",3),("变天",3),("玄天",4),("幽天",3),("颢天",3),("朱天",3),("炎天",3),("阳天",3)]; let luck="吉凶凶吉凶吉吉吉凶凶凶凶吉吉凶吉吉凶吉凶吉吉凶凶凶吉凶吉";
  let mut land_of=vec![]; for (l,c) in lands.iter() { for _ in 0..*c { land_of.push(*l); } }
  for i in 0..28usize { let s=TwentyEightStar::from_index(i as isize); n+=1; if s.get_zone().get_name()!=["东","北","西","南"][i/7] || s.get_zone().get_beast().get_name()!=["青龙","玄武","白虎","朱雀"][i/7] { iss.push(format!("zone {i}")); }
    if s.get_animal().get_name()!=animals.chars().nth(i).unwrap().to_string() { iss.push(format!("animal {i}")); } if s.get_seven_star().get_name()!=seven.chars().nth(i%7).unwrap().to_string() { iss.push(format!("seven {i}")); }
    if s.get_land().get_name()!=land_of[i] { iss.push(format!("land {i}")); } if s.get_luck().get_name()!=luck.chars().nth(i).unwrap().to_string() { iss.push(format!("luck28 {i}")); } }
  // nine star attrs
  let col=["白","黑","碧","绿","黄","白","赤","白","紫"]; let nel=["水","土","木","木","土","金","金","土","火"]; let ndir=["北","西南","东","东南","中","西北","西","东北","南"];
  for i in 0..9usize { let s=NineStar::from_index(i as isize); n+=1; if s.get_color()!=col[i] || s.get_element().get_name()!=nel[i] || s.get_direction().get_name()!=ndir[i] || s.get_dipper().get_name()!=DIPPER_NAMES[i] { iss.push(format!("ninestar {i}")); } }
  // direction element, land direction
  let del=[("北","水"),("西南","土"),("东","木"),("东南","木"),("中","土"),("西北","金"),("西","金"),("东北","土"),("南","火")]; for (d,e) in del.iter() { if Direction::from_name(d).get_element().get_name()!=*e { iss.push(format!("dir el {d}")); } }
  // fetal origin / breath
  for c in 0..60usize { let p=SixtyCycle::from_index(c as isize); let ec=EightChar::from_sixty_cycle(SixtyCycle::from_index(0),p.clone(),p.clone(),SixtyCycle::from_index(0)); n+=1;
    let fo=ec.get_fetal_origin(); if fo.get_heaven_stem().get_index()!=(c%10+1)%10 || fo.get_earth_branch().get_index()!=(c%12+3)%12 { iss.push(format!("fetal origin {c}")); }
    let fb=ec.get_fetal_breath(); let lh=liuhe.iter().find(|(x,y,_)| *x==BR[c%12]||*y==BR[c%12]).unwrap(); let partner= if lh.0==BR[c%12] {lh.1} else {lh.0}; if fb.get_heaven_stem().get_index()!=(c%10+5)%10 || fb.get_earth_branch().get_name()!=partner { iss.push(format!("fetal breath {c}")); } }
  println!("checks={n} issues={}", iss.len()); for i in iss.iter().take(25){println!("  {i}");}
  let _=st("甲");
}
