use tyme4rs::tyme::festival::*; use tyme4rs::tyme::solar::*; use tyme4rs::tyme::lunar::*; use tyme4rs::tyme::{Tyme,Culture};
use std::panic;
fn main(){ panic::set_hook(Box::new(|_| {}));
  // parse tables independently
  let sf: Vec<(usize,usize,usize,isize)> = SOLAR_FESTIVAL_DATA.split('@').filter(|s| !s.is_empty()).map(|r| (r[0..2].parse().unwrap(), r[3..5].parse().unwrap(), r[5..7].parse().unwrap(), r[7..].parse().unwrap())).collect();
  let mut iss=vec![]; let mut n=0; let mut found=0;
  let first=SolarDay::from_ymd(1900,1,1); let total=SolarDay::from_ymd(2100,12,31).subtract(first);
  for k in 0..=total { let sd=first.next(k); n+=1; let want=sf.iter().find(|(_,m,d,sy)| *m==sd.get_month() && *d==sd.get_day() && sd.get_year()>=*sy);
    let got=sd.get_festival(); match (got,want) { (None,None)=>{}, (Some(g),Some((i,_,_,sy)))=>{ found+=1; if g.get_index()!=*i || g.get_start_year()!=*sy || g.get_name()!=SOLAR_FESTIVAL_NAMES[*i] || g.get_day()!=sd { iss.push(format!("SF {}", sd)); } }, (a,b)=>iss.push(format!("SF membership {} {:?} {:?}", sd,a.is_some(),b.is_some())) }
    // lunar festival by date
    let ld=sd.get_lunar_day(); let (ly,lm,dd)=(ld.get_year(),ld.get_month(),ld.get_day());
    let fixed=[(1,1,0usize),(1,15,1),(2,2,2),(3,3,3),(5,5,5),(7,7,6),(7,15,7),(8,15,8),(9,9,9),(12,8,11)];
    let mut want: Option<usize>=None;
    for (m,d,i) in fixed.iter() { if lm==*m as isize && dd==*d { want=Some(*i); break; } }
    if want.is_none() { let qm=SolarTerm::from_index(sd.get_year(),7).get_julian_day().get_solar_day(); if qm==sd { want=Some(4); } }
    if want.is_none() { let dz=SolarTerm::from_index(sd.get_year(),24).get_julian_day().get_solar_day(); if dz==sd { want=Some(10); } }
    if want.is_none() { let nx=sd.next(1).get_lunar_day(); if nx.get_month()==1 && nx.get_day()==1 { want=Some(12); } }
    let got=ld.get_festival().map(|f| f.get_index());
    if got!=want { iss.push(format!("LF {} L{}/{}/{} got {:?} want {:?}", sd,ly,lm,dd,got,want)); } if want.is_some(){found+=1;}
  }
  println!("days={n} found={found} issues={}", iss.len()); for i in iss.iter().take(10){println!("  {i}");}
}
