#!/bin/bash
# usage: tools/confirm_seeded.sh <Cnn> <dir-with-patch.diff-and-seeded_demo.rs> [label]
# Confirms an independently written breaking change in a fresh scratch worktree of /repo HEAD:
#  (1) demo passes on the unchanged tree, (2) patch applies, (3) 272 unit + 67 doc tests still pass,
#  (4) demo fails with the patch.  Prints CONFIRMED or REJECTED(<why>) and removes the worktree.
set -u
ID="$1"; SRC="$(readlink -f "$2")"; LABEL="${3:-$ID}"
WT="/tmp/confirm_$LABEL"
git -C /repo worktree remove --force "$WT" >/dev/null 2>&1
git -C /repo worktree add -q --detach "$WT" HEAD || { echo "REJECTED(cannot create worktree)"; exit 2; }
cleanup() { git -C /repo worktree remove --force "$WT" >/dev/null 2>&1; rm -rf "$WT"; }
trap cleanup EXIT
mkdir -p "$WT/tests"; cp "$SRC/seeded_demo.rs" "$WT/tests/seeded_demo.rs"
cd "$WT"
export CARGO_NET_OFFLINE=true
A=$(cargo test --offline --test seeded_demo 2>&1 | grep "test result" | tail -1)
echo "demo on unchanged tree: $A"
case "$A" in *"ok."*) ;; *) echo "REJECTED(demo does not pass on the unchanged tree)"; exit 1;; esac
git apply "$SRC/patch.diff" || { echo "REJECTED(patch does not apply)"; exit 1; }
L=$(cargo test --offline --lib 2>&1 | grep "test result" | tail -1)
D=$(cargo test --offline --doc 2>&1 | grep "test result" | tail -1)
echo "unit tests with patch: $L"; echo "doc tests with patch: $D"
case "$L" in *"272 passed; 0 failed"*) ;; *) echo "REJECTED(unit tests do not pass with the patch)"; exit 1;; esac
case "$D" in *"67 passed; 0 failed"*) ;; *) echo "REJECTED(doc tests do not pass with the patch)"; exit 1;; esac
B=$(cargo test --offline --test seeded_demo 2>&1 | grep "test result" | tail -1)
echo "demo with patch: $B"
case "$B" in *"FAILED"*) echo "CONFIRMED";; *) echo "REJECTED(demo does not fail with the patch)"; exit 1;; esac
