#!/bin/bash
# usage: tools/seed_eval.sh <Cnn> <source-dir> [target-name]
# confirm an independently written change, store it under /verif/seeded/<name>/, run the property's
# quick check (and thorough if quick misses) against it, and write meta.json
set -u
ID="$1"; SRC="$2"; NAME="${3:-$ID}"
HERE="$(cd "$(dirname "$0")/.." && pwd)"
OUT="$HERE/seeded/$NAME"; mkdir -p "$OUT"
if [ "$(readlink -f "$SRC")" != "$(readlink -f "$OUT")" ]; then cp "$SRC/patch.diff" "$SRC/seeded_demo.rs" "$OUT/" || exit 2; [ -f "$SRC/NOTES.md" ] && cp "$SRC/NOTES.md" "$OUT/NOTES.md"; fi
# CONFIRM_LOG=<file>: reuse the output of an earlier tools/confirm_seeded.sh run for this change (confirmations can
# run in parallel in scratch worktrees; the checks below need /repo and run one at a time)
if [ -n "${CONFIRM_LOG:-}" ] && [ -f "$CONFIRM_LOG" ]; then CONF="$(cat "$CONFIRM_LOG")"; else CONF="$("$HERE/tools/confirm_seeded.sh" "$ID" "$OUT" "$NAME" 2>&1)"; fi
echo "$CONF" | tail -5
VERDICT="$(echo "$CONF" | tail -1)"
Q="not run"; T="not run"; QV=""; TV=""
if [ "$VERDICT" = "CONFIRMED" ]; then
  QO="$("$HERE/tools/run_mutant.sh" "$OUT/patch.diff" "$ID" quick 2>&1)"; Q="$(echo "$QO" | head -1 | sed 's/.*-> //')"; QV="$(echo "$QO" | grep "^  violation" | head -2 | cut -c1-300)"
  echo "$QO" | head -4 | cut -c1-260
  case "$Q" in CAUGHT*) ;; *)
    TO="$("$HERE/tools/run_mutant.sh" "$OUT/patch.diff" "$ID" thorough 2>&1)"; T="$(echo "$TO" | head -1 | sed 's/.*-> //')"; TV="$(echo "$TO" | grep "^  violation" | head -2 | cut -c1-300)"
    echo "$TO" | head -4 | cut -c1-260 ;;
  esac
fi
python3 - "$ID" "$NAME" "$OUT" "$VERDICT" "$Q" "$T" "$QV" "$TV" <<'PY'
import json,sys,subprocess,datetime
id_,name,out,verdict,q,t,qv,tv=[a.encode('utf-8','surrogateescape').decode('utf-8','replace') for a in sys.argv[1:9]]
notes=""
try: notes=open(out+"/NOTES.md").read()
except Exception: pass
meta={"property_id":id_,"name":name,
 "origin":"written by an independent sub-agent that saw only the property text and a scratch worktree of /repo (nothing from /verif)",
 "needs_to_manifest":"see NOTES.md (the author's own description)" ,
 "confirmation":{"verdict":verdict,"what_was_run":"tools/confirm_seeded.sh: fresh worktree of /repo HEAD; demo passes unchanged; patch applies; cargo test --offline --lib (272) and --doc (67) pass with the patch; demo fails with the patch",
   "repo_head":subprocess.run(["git","-C","/repo","rev-parse","--short","HEAD"],capture_output=True,text=True).stdout.strip()},
 "checks":{"quick":q,"thorough":t,"first_violations_quick":qv.splitlines(),"first_violations_thorough":tv.splitlines()},
 "evaluated":datetime.datetime.utcnow().isoformat()+"Z"}
json.dump(meta,open(out+"/meta.json","w"),indent=1,ensure_ascii=False)
PY
