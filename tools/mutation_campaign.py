#!/usr/bin/env python3
"""Mechanical mutation campaign (validation aid, not a registered check).

usage: mutation_campaign.py <scratch-repo> <scratch-verif> <out.jsonl> <n-mutants> <seed> [file-filter]

Works ONLY on scratch copies: <scratch-repo> is a clone of /repo, <scratch-verif> a copy of /verif whose
harness/Cargo.toml points at <scratch-repo>.  For each of n seeded (file, line, operator) mutants of the library
sources (never inside #[cfg(test)] modules, comments or the packed data tables):
  1. apply it; cargo build --features verif; cargo test --lib (the 272 pinned tests) - a mutant that does not
     compile or that the pinned tests kill is discarded;
  2. run every property's quick check; record which ones exit 1.
A survivor that no check reports is either an equivalent mutant or a gap; those are listed for manual triage.
"""
import json, os, random, re, subprocess, sys, time

repo, verif, out, n, seed = sys.argv[1], sys.argv[2], sys.argv[3], int(sys.argv[4]), int(sys.argv[5])
flt = sys.argv[6] if len(sys.argv) > 6 else ""
env = dict(os.environ, CARGO_NET_OFFLINE="true")
# cheapest checks first; the loop stops at the first check that reports the mutant
PROPS = ["C19", "C12", "C04", "C01", "C05", "C03", "C14", "C10", "C18", "C15", "C06", "C11", "C08", "C16", "C13", "C09", "C07", "C20", "C02", "C17"]

def sh(cmd, cwd, timeout=1800):
    # own process group, so that a timeout also kills a hung test binary (a mutant can make the pinned tests loop)
    import signal
    p = subprocess.Popen(cmd, cwd=cwd, shell=True, stdout=subprocess.PIPE, stderr=subprocess.STDOUT, text=True, env=env, start_new_session=True)
    try:
        out, _ = p.communicate(timeout=timeout)
        return p.returncode, out
    except subprocess.TimeoutExpired:
        try:
            os.killpg(p.pid, signal.SIGKILL)
        except ProcessLookupError:
            pass
        p.wait()
        return 124, "timeout"

def sources():
    res = []
    for root, _, files in os.walk(os.path.join(repo, "src")):
        for f in files:
            if f.endswith(".rs"):
                res.append(os.path.join(root, f))
    return sorted(res)

OPS = [
    (r"<=", "<"), (r">=", ">"), (r"(?<![<>=!-])<(?![<=])", "<="), (r"(?<![<>=!-])>(?![>=])", ">="),
    (r"==", "!="), (r"!=", "=="), (r" \+ ", " - "), (r" - ", " + "), (r" \* ", " / "), (r"&&", "||"), (r"\|\|", "&&"),
    (r" \+= ", " -= "), (r" -= ", " += "), (r" % ", " / "),
]

def candidates():
    c = []
    for path in sources():
        if flt and flt not in path:
            continue
        lines = open(path, encoding="utf-8").read().split("\n")
        in_test = False
        for i, line in enumerate(lines):
            if "#[cfg(test)]" in line or "cfg(feature = \"verif\")" in line:
                in_test = True
            if in_test:
                continue
            s = line.strip()
            if not s or s.startswith("//") or s.startswith("///") or s.startswith("use ") or s.startswith("#["):
                continue
            if len(line) > 400:  # packed data tables
                continue
            code = line.split("//")[0]
            if "->" in code and "fn " in code:
                continue
            # operators
            for k, (pat, rep) in enumerate(OPS):
                for m in re.finditer(pat, code):
                    # skip generics / lifetimes / arrows
                    ctx = code[max(0, m.start() - 12): m.end() + 12]
                    if "Vec<" in ctx or "Option<" in ctx or "Result<" in ctx or "->" in ctx or "=>" in ctx or "impl" in ctx or "Box<" in ctx or "Arc<" in ctx or "Mutex<" in ctx or "RefCell<" in ctx or "HashMap<" in ctx or "&'" in ctx or "<'" in ctx or "::<" in ctx:
                        continue
                    c.append((path, i, "op", m.start(), m.end(), rep))
            # integer literals (not in string literals)
            if '"' not in code:
                for m in re.finditer(r"(?<![\w.])(\d{1,4})(?![\w.])", code):
                    v = int(m.group(1))
                    c.append((path, i, "int", m.start(), m.end(), str(v + 1)))
                    if v > 0:
                        c.append((path, i, "int", m.start(), m.end(), str(v - 1)))
    return c

def apply(cand):
    path, i, kind, a, b, rep = cand
    lines = open(path, encoding="utf-8").read().split("\n")
    old = lines[i]
    lines[i] = old[:a] + rep + old[b:]
    open(path, "w", encoding="utf-8").write("\n".join(lines))
    return old, lines[i]

def restore():
    sh("git checkout -- .", repo)

rng = random.Random(seed)
cands = candidates()
rng.shuffle(cands)
print("candidates:", len(cands), flush=True)
done = 0
survivors = 0
with open(out, "a") as fo:
    for cand in cands:
        if done >= n:
            break
        restore()
        old, new = apply(cand)
        rel = os.path.relpath(cand[0], repo)
        rc, o = sh("cargo build --offline --features verif 2>&1 | tail -3", repo)
        if "error" in o or rc != 0:
            continue
        rc, o = sh("cargo test --offline --lib 2>&1 | grep 'test result' | head -1", repo, timeout=900)
        if "272 passed; 0 failed" not in o:
            continue
        done += 1
        survivors += 1
        rec = {"file": rel, "line": cand[1] + 1, "old": old.strip(), "new": new.strip(), "caught_by": [], "inconclusive": [], "t": time.strftime("%T")}
        for p in PROPS:
            rc, o = sh("./check %s quick 2>&1 | grep -E '^VIOLATION|^INCONCLUSIVE|^SUMMARY' | head -3" % p, verif, timeout=1200)
            if "VIOLATION" in o:
                rec["caught_by"].append(p)
                break
            elif "INCONCLUSIVE" in o:
                rec["inconclusive"].append(p)
        fo.write(json.dumps(rec, ensure_ascii=False) + "\n")
        fo.flush()
        print(done, rel, cand[1] + 1, "|", old.strip()[:70], "=>", new.strip()[:70], "| caught by", rec["caught_by"], "inconclusive", rec["inconclusive"], flush=True)
restore()
print("DONE survivors evaluated:", survivors)
