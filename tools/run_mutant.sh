#!/bin/bash
# usage: tools/run_mutant.sh <patch-file> <Cnn> [quick|thorough]
# Applies a planted break to /repo's working tree, runs the check, and always restores the tree.
# Prints: MUTANT <patch> <Cnn> <tier> -> CAUGHT | MISSED | INCONCLUSIVE (exit code of the check)
set -u
PATCH="$(readlink -f "$1")"; PROP="$2"; TIER="${3:-quick}"
HERE="$(cd "$(dirname "$0")/.." && pwd)"
if ! git -C /repo diff --quiet; then echo "refusing: /repo working tree is not clean"; exit 2; fi
if ! git -C /repo apply --check "$PATCH" 2>/dev/null; then echo "MUTANT $(basename "$PATCH") $PROP $TIER -> DOES-NOT-APPLY"; exit 2; fi
git -C /repo apply "$PATCH"
trap 'git -C /repo checkout -- . ' EXIT
OUT="$("$HERE/check" "$PROP" "$TIER" 2>&1)"; RC=$?
case $RC in
  0) V=MISSED ;;
  1) V=CAUGHT ;;
  *) V=INCONCLUSIVE ;;
esac
echo "MUTANT $(basename "$PATCH") $PROP $TIER -> $V (exit $RC)"
echo "$OUT" | grep -E "^SUMMARY|^VIOLATION|^INCONCLUSIVE|^  violation" | head -6 | cut -c1-260
exit 0
