#!/usr/bin/env python3
"""Regenerates /verif/MANIFEST.json from the table below and validates it against the schema.
A property is claimed only when its monitor module exists in harness/src/monitor/."""
import json, os, subprocess, sys

ROOT = os.path.dirname(os.path.dirname(os.path.abspath(__file__)))

P = {
 "C01": dict(
  technique="runtime monitor: exhaustive date sweep of the real library against an independent counted-calendar oracle",
  text="Every one of the 3,652,061 civil dates, every candidate (y,m,d) triple and every month/year length is driven through the public API and each answer is compared online with the harness' own proleptic Julian/Gregorian model (day numbers by counting, cross-checked against two closed forms on every run). The stated finite domain is enumerated completely in both tiers; pairs (date, n) are covered by 33 fixed plus seeded-random step counts per date.",
  note="Trusted: the harness calendar model and its self-test; (date, n) pairs are sampled (fixed spans + seeded random), not enumerated.",
  ref="5/C01"),
 "C02": dict(
  technique="runtime monitor: exhaustive solar<->lunar round-trip, successor and ordering relations over observed conversions",
  text="All civil dates are converted to lunar and back, consecutive days must map to consecutive lunar days, every accepted lunar date of (quick: sampled years, thorough: all years) is round-tripped, invalid lunar dates must be refused, and before/after on lunar days is compared with chronological order for neighbouring-month and leap-twin pairs.",
  note="Oracle is relational (round trip, successor, order = order of day numbers from the harness calendar); reform-era labelling defects are listed known findings.",
  ref="5/C02"),
 "C03": dict(
  technique="runtime monitor: exhaustive month-by-month walk with tiling, length and index-arithmetic oracles",
  text="All ~123,700 lunar months of years 0..9999 are visited by next(1); abutment, 29/30 length, forward/back, next(n) against the enumerated sequence, per-year month lists, counts, sums and new-year distances are checked for each.",
  note="Oracle is the enumerated sequence itself plus first-day differences; reform-era anomalies are listed known findings.",
  ref="5/C03"),
 "C04": dict(
  technique="runtime monitor: re-derivation of month numbers and leap months from the library's own new-moon and zhongqi days by the no-major-term rule",
  text="For every solstice-to-solstice window in years 27..9998 (minus 238-240) the labels, leap month and month count returned by the API are compared with an independent application of the rule to the observed new-moon days and calendar-making term days.",
  note="Trusts the library's two day series as inputs of the rule (their astronomy is C05's subject).",
  ref="5/C04"),
 "C05": dict(
  technique="runtime monitor: independent low-precision solar/lunar theory (Meeus) + inverse-solver residuals + calendar-path vs precise-path day agreement + TT-UT continuity",
  text="Term instants and lunations of 1900-2150 are compared with an independently coded theory within its stated accuracy; inverse solvers are re-substituted into the library's own series; from 1961 the table/cursory day of every term and lunation must equal the civil day of the precise instant; TT-UT jumps at segment joins are bounded.",
  note="Independent theory accuracy ~0.01 deg (Sun) / ~10 arcsec-level truncation (Moon): coefficient changes below that which move no civil day are invisible (DESIGN section 9).",
  ref="5/C05"),
 "C06": dict(
  technique="runtime monitor: term sequence monotonicity/spacing, stepping against enumeration, and day->term / instant->term mapping against a two-pointer oracle over the term list",
  text="All 240,000 terms are enumerated; every civil day (thorough) or a seeded sample of years plus the worst eras (quick) is mapped to its term and day index and compared with the oracle walk; instants around every term instant are mapped as well.",
  note="The term instants themselves are taken from the library (their astronomy is C05's subject); rounding convention to the nearest second shared with the library.",
  ref="5/C06"),
 "C07": dict(
  technique="runtime monitor: day pillar and weekday of every civil date by every route against (N+49) mod 60 and (N+1) mod 7",
  text="Every civil date's pillar via the lunar date, the civil date's weekday via three routes, and (thorough: all, quick: sampled) the sexagenary-day route are compared with the arithmetic oracle on the harness day number.",
  note="Anchors 2000-01-01 = Wuwu/Saturday and 1949-10-01 = Jiazi are checked in the oracle self-test.",
  ref="5/C07"),
 "C08": dict(
  technique="runtime monitor: year/month pillars of days and instants against a Lichun/Jie/Five-Tigers oracle built on the term-day list",
  text="Day view for every civil date (thorough) or sampled years (quick); time view for the second before/after every Jie instant, random instants, and two instants on each of the first and last six days and the two days around the lunar new year of every civil year (both tiers); only the 720 legal pairs may occur and all must be seen in thorough.",
  note="Term instants from the library; rule encoding is the harness' own.",
  ref="5/C08"),
 "C09": dict(
  technique="runtime monitor: exhaustive (day pillar, hour) table, random-instant composition, and inverse-search soundness/completeness on random queries",
  text="Hour branch/stem and 23:00 roll-over exhaustively over 60 days x 24 h; eight characters = four pillars on random instants for both shipped providers; inverse search results must carry the queried characters and hit the queried double-hour unless it contains a Jie instant.",
  note="Random sampling over instants and year ranges; seeds recorded.",
  ref="5/C09"),
 "C10": dict(
  technique="runtime monitor: sequential and 16-thread histories with injected refusals and an injected yield between the cache's critical sections, compared with cold-cache answers; fresh-process order permutations; Miri for the threaded cache workload",
  text="Answers of random and adversarial (colliding-key) histories are compared with the cold answer after the guarded cache reset; threads race on overlapping queries with double-computes counted from the hook; refusals are injected at every position of short histories; 8 fresh processes answer the same list in different orders; Miri interprets a small threaded workload (thorough).",
  note="Interleavings are those the OS (and Miri seeds) produced; evidence reports double-computes observed.",
  ref="5/C10"),
 "C11": dict(
  technique="runtime monitor: group-action laws, exhaustive over every cyclic type and seeded-random/boundary over every linear unit with oracle ordinals",
  text="Every element of every LoopTyme wrapper x step window; index<->name inverses and refusal of unknown names; next(0), next(a).next(b)=next(a+b), next(a).next(-a) and ordinal movement on 19 linear units.",
  note="Implementor list is compared with a grep of the source at run time so a new cycle type cannot be skipped silently.",
  ref="5/C11"),
 "C12": dict(
  technique="runtime monitor: absolute-second oracle for clock arithmetic and an exhaustive carry-boundary scan of Julian-date->clock conversion",
  text="Random and boundary instants x offsets up to 1e9 s for next/subtract/order/round trip; every month end x carry times x 15 fractional offsets for get_solar_time validity and half-second accuracy.",
  note="Float slack 2e-4 s at JD 2.4e6.",
  ref="5/C12"),
 "C13": dict(
  technique="runtime monitor: container listings against the calendar, lunar-sequence and term-day oracles",
  text="Every civil year/month listing exhaustively; every lunar year/month listing; hour slots on sampled days; sexagenary month day lists against Jie days.",
  note="Sampling only for hour slots and (quick) sexagenary months.",
  ref="5/C13"),
 "C14": dict(
  technique="runtime monitor: week blocks of every month x 7 starts against a weekday-arithmetic oracle",
  text="All civil months x 7 starts x all indices, date->week membership, stepping, index in year; lunar months sampled (quick) or 25% of years (thorough).",
  note="Weekday = (N+1) mod 7 on the harness day number.",
  ref="5/C14"),
 "C15": dict(
  technique="runtime monitor: Nines, Dog days, Plum rains, pentads and commanding stems re-derived from term days and the day pillar",
  text="Every civil date of years 2..9998 (thorough) or the C06 sample (quick) compared with an oracle coded from the classical rules.",
  note="Term days from the library; allotment table transcribed independently of the packed digit string.",
  ref="5/C15"),
 "C16": dict(
  technique="runtime monitor: child limit, decade and yearly fortunes on random and Jie-adjacent births against a seconds-conversion and nominal-calendar-addition oracle",
  text="Random births x both genders plus births within seconds of a Jie and on month/year ends; all four strategies through the global provider switch hook and directly.",
  note="October-1582 ends are a listed known finding with their own signature class.",
  ref="5/C16"),
 "C17": dict(
  technique="runtime monitor: recurrences of duty, twelve spirits, mansions, six-day star, phases, minor Ren and flying nine stars",
  text="Every civil date (thorough) / sampled years and all leap months of sampled years (quick); all 12 double-hours of sampled days; every year and (year branch, month) pair.",
  note="Rule encodings are the harness' own transcription (DESIGN section 9).",
  ref="5/C17"),
 "C18": dict(
  technique="runtime monitor: exhaustive decode of every almanac table cell through the API and through an independent parser of the raw tables",
  text="All 720+720 pillar pairs, all 151 spirits, kitchen-god attributes of every year -1..9999; finite domain enumerated completely.",
  note="Raw tables read through the guarded hook.",
  ref="5/C18"),
 "C19": dict(
  technique="runtime monitor: exhaustive comparison of stem/branch/pillar/star attributes with a rule-based independent encoding",
  text="All stems, branches, pairs, pillars, stars, mansions, month-days and 1,440 eight-character inputs; finite domain enumerated completely.",
  note="Oracle encodes the classical rules by name, not by index arrays.",
  ref="5/C19"),
 "C20": dict(
  technique="runtime monitor: festival and holiday lookups both ways against own parsers of the public data strings and the calendar/term oracles",
  text="Every civil date 1900..2100 and (y, index) for festivals; every lunar date of those years; all holiday records, membership 1995..2035, stepping.",
  note="Data strings are public statics parsed by the harness' own fixed-width parsers.",
  ref="5/C20"),
}

# what the later validation rounds added (DESIGN 11.6): workloads that vary what happened before a call
WALK = "Seeded single-thread sequences of 6..16 operations, each input derived from the previous one (same input, +-1, days / a month / half a year / a year away, the same month-day in a year differing by a cycle, a power of two or ten or a digit), are judged answer by answer by the same oracle, so that a memo with an incomplete key is met by the inputs it confuses."
HISTORY = {
 "C01": WALK + " Evening Julian dates up to 23:59:59.9 and refused neighbour triples are part of the sequences.",
 "C02": WALK + " Lunar days that have already answered questions are also stepped through one month in six (all in thorough) and compared with the counted calendar.",
 "C03": WALK + " The sequences mix the uncached constructor, refused labels followed by valid ones, leap-month queries, stepping, month lists and resets of the month cache through the guarded hook.",
 "C04": WALK + " The sequences are the lunar-month histories of C03, judged against the enumeration the rule has just been applied to.",
 "C05": WALK + " The sequences are the lunar-month histories of C03 over 1961-8000, judged against the first days that have just been compared with the precise conjunctions.",
 "C06": WALK + " Constructions by raw index -30..53, by name and by stepping are mixed with day and instant look-ups on the same three years.",
 "C07": WALK,
 "C08": WALK + " Instants are walked as well (same instant, +-1 s, +-2 h, day edges, same clock time on a related day).",
 "C09": WALK + " Hours that have already answered questions are also stepped (chains of 1..3 LunarHour::next) and judged at the instant 7200*n s later.",
 "C10": "Queries of the wider API surface (terms, term days, weeks, Julian dates, festivals, holidays, day and hour almanac, term-anchored series, leap months, pillars, clock arithmetic, births) are laid out as single-thread walks over related queries and every answer is compared with the answer the same query gets as the only call of a fresh thread; the fresh processes answer a list containing such walks in listed, reversed and shuffled orders; hot sets of related queries are answered by all worker threads at once and compared with answers taken one at a time on fresh threads; values that have answered questions are compared with never-touched values of the same date (==, !=, rendering, order, round trips) and stems / branches / pillars are stepped from warm and cold sources.",
 "C12": WALK + " Instants are walked (same instant, +-1 s, +-2 h, day edges, same clock time on a related day).",
 "C13": WALK,
 "C14": WALK,
 "C15": WALK,
 "C16": "Before anything else runs, single-threaded sequences of related births (both sides of the year's first and last Jie in one civil year, both sides of a Jie within a month, the same month a year later, both genders) are judged one after the other.",
 "C17": WALK + " The day almanac of hour.get_lunar_day() taken after hour-level queries (23:xx, 00:xx, both sides of a Jie instant) is compared with a freshly built day.",
 "C18": "The cells are then queried again in drawn order on all worker threads at once and compared with the same independent parse.",
 "C19": "All attributes of every value of the nine attributed cycles are read, the value is stepped by every n in a window and back, and the stepped values' attributes are compared with those of constructed values.",
 "C20": WALK + " Every pair of (year, index) whose decimal concatenations coincide, and the month/day pairs (1,1k)/(11,k), (1,2k)/(12,k), are looked up back to back.",
}

def main():
    checks, na = [], []
    for pid in sorted(P):
        mod = os.path.join(ROOT, "harness", "src", "monitor", pid.lower() + ".rs")
        registered = os.path.exists(mod) and ('pub fn run' in open(mod).read())
        if not registered:
            na.append({"property_id": pid, "reason": "monitor not built yet in this revision; planned per DESIGN.md section 5 (runtime monitoring applies, nothing is claimed until the check exists)"})
            continue
        d = dict(P[pid])
        if pid in HISTORY:
            d["technique"] += "; plus single-thread histories over related inputs (state carried by values, threads or the process)" if HISTORY[pid].startswith(WALK) else "; plus workloads that vary what a value, a thread or the process did before the query"
            d["text"] += " " + HISTORY[pid]
        checks.append({
            "property_id": pid,
            "quick_cmd": f"./check {pid} quick",
            "thorough_cmd": f"./check {pid} thorough",
            "evidence_file": f"/verif/evidence/{pid}.json",
            "replay_cmd_template": f"./check {pid} --replay {{path}}",
            "engine": "vcheck",
            "level_claimed": {"category": "exploration", "text": d["text"], "design_ref": "DESIGN.md section " + d["ref"]},
            "level_note": d["note"],
            "technique": d["technique"],
        })
    hooks_commits = subprocess.run(["git", "-C", "/repo", "log", "--format=%h %s", "--grep=^verif:"], capture_output=True, text=True).stdout.strip().splitlines()
    m = {
        "version": 1,
        "setup_cmd": "./setup.sh",
        "hooks": {
            "guard": "cargo feature `verif` (off by default)",
            "enable": "the harness depends on tyme4rs by path with features = [\"verif\"]; `cargo build --release --offline` in /verif/harness rebuilds /repo's working tree",
            "baseline_off_cmd": "cd /repo && cargo test --workspace --no-fail-fast --offline",
            "source_commits": hooks_commits,
            "add_only": True,
        },
        "engines": [
            {"name": "vcheck", "path": "/verif/harness", "serves_properties": [c["property_id"] for c in checks],
             "kind_free_text": "Rust harness that drives the real library through its public API under exhaustive / seeded-random / adversarial workloads while independent oracles (monitors) decide every observed event; evidence reports what was observed"},
        ],
        "checks": checks,
        "notes": "Verdicts are three-valued: exit 0 held (KNOWN-FINDING lines for listed findings), exit 1 VIOLATION with replay file, exit 2 INCONCLUSIVE (build failure, watchdog, harness error, observation floor not met). Known findings: /verif/KNOWN_FINDINGS.txt.",
        "not_applicable": na,
    }
    out = os.path.join(ROOT, "MANIFEST.json")
    json.dump(m, open(out, "w"), indent=1, ensure_ascii=False)
    open(out, "a").write("\n")
    try:
        import jsonschema
        jsonschema.validate(m, json.load(open("/root/.vp/MANIFEST.schema.json")))
        print("MANIFEST.json valid;", len(checks), "checks,", len(na), "not yet claimed")
    except ImportError:
        print("jsonschema not importable here; wrote MANIFEST.json unvalidated")

if __name__ == "__main__":
    main()
