#!/bin/bash
# offline pre-build of the harness against /repo's working tree
set -e
cd "$(dirname "$0")/harness"
export CARGO_NET_OFFLINE=true
cargo build --release --offline
