//! C10 / M3: a small threaded workload for Miri (data races, UB, aliasing in the code that touches
//! the shared Mutex<HashMap>, lazy_static initialisation and the RefCell memos).  Three threads ask
//! for digit-colliding lunar month labels (table-driven years, cheap for the interpreter), one of them
//! issues a refused request in between; every answer must equal the single-threaded cold answer.
use std::panic;
use std::sync::{Arc, Barrier};
use tyme4rs::tyme::lunar::verif as hook;
use tyme4rs::tyme::lunar::LunarMonth;

fn ask(y: isize, m: isize) -> String {
  match panic::catch_unwind(|| {
    let x = LunarMonth::from_ym(y, m);
    format!("{}/{}:{}:{}:{}", x.get_year(), x.get_month_with_leap(), x.get_first_julian_day().get_day(), x.get_day_count(), x.get_index_in_year())
  }) {
    Ok(s) => s,
    Err(_) => "REFUSED".to_string(),
  }
}

fn main() {
  panic::set_hook(Box::new(|_| {}));
  // (1,12)/(11,2) and (2,11)/(21,1) concatenate to the same digits
  let labels: Vec<(isize, isize)> = vec![(1, 12), (11, 2), (2, 11), (21, 1)];
  let mut cold = vec![];
  for (y, m) in &labels {
    hook::lunar_month_cache_reset();
    cold.push(ask(*y, *m));
  }
  hook::lunar_month_cache_reset();
  hook::set_cache_gap_yields(2);
  let barrier = Arc::new(Barrier::new(3));
  let mut hs = vec![];
  for t in 0..3usize {
    let labels = labels.clone();
    let barrier = barrier.clone();
    hs.push(std::thread::spawn(move || {
      barrier.wait();
      let mut out = vec![];
      for k in 0..labels.len() {
        let i = (k + t) % labels.len();
        if t == 1 && k == 1 {
          out.push((usize::MAX, ask(1, 13)));
        }
        out.push((i, ask(labels[i].0, labels[i].1)));
      }
      out
    }));
  }
  let mut ok = true;
  let mut n = 0;
  for h in hs {
    for (i, a) in h.join().unwrap() {
      n += 1;
      if i == usize::MAX {
        if a != "REFUSED" {
          println!("MIRI-MISMATCH refused request answered {}", a);
          ok = false;
        }
      } else if a != cold[i] {
        println!("MIRI-MISMATCH label {:?}: {} vs cold {}", labels[i], a, cold[i]);
        ok = false;
      }
    }
  }
  let st = hook::lunar_month_cache_stats();
  if ok {
    println!("MIRI-OK answers={} cache_len={} hits={} misses={} poisoned={}", n, st.0, st.1, st.2, st.3);
  } else {
    std::process::exit(1);
  }
}
