//! Related-input walks.  A monitor that decides "the answer is a function of the arguments" must vary what
//! happened *before* the call: a thread-local or process-wide memo with an incomplete key only answers wrongly when
//! the previous call on the thread (or in the process) was for an input that its key confuses with this one.  The
//! helpers here derive the next input of a single-thread sequence from the previous one by the relations such keys
//! typically drop: the same month/day in a year that differs by a power of two, a power of ten, a calendar cycle
//! (4, 19, 28, 60, 400), a multiple of a typical table size (`TABLE_SIZES`, or any modulus up to 1100), the digits of the year, the month mirrored across the half-year, the day a few days or a
//! month or a year away, or exactly the same input again.
use crate::model::cal::{cal, exists, mdays, FIRST, LAST};
use crate::util::Rng;

pub const YEAR_DELTAS: [i64; 56] = [
  1, -1, 1, -1, 2, -2, 3, -3, 4, -4, 7, 10, -10, 12, -12, 19, -19, 28, -28, 60, -60, 100, -100, 128, -128, 180, 200, 256, -256, 366, -366, 400, -400, 400, -400, 512, -512, 800, -800, 1000, -1000, 1024, -1024, 1200, -1200, 2000, -2000, 2048,
  -2048, 4000, -4000, 4096, -4096, 4096, 8192, -8192,
];

/// Sizes a hand-written hash table, ring buffer or slot array typically has: powers of two, the primes next to
/// them, round decimal sizes, and the lengths of calendar cycles.  A memo that files its entries under
/// `key mod size` confuses two inputs that differ by a multiple of one of these.
pub const TABLE_SIZES: [i64; 48] = [
  8, 16, 31, 32, 37, 50, 53, 61, 64, 67, 97, 101, 127, 128, 131, 211, 251, 256, 257, 307, 360, 365, 499, 500, 503, 509, 512, 521, 769, 777, 997, 1000, 1009, 1013, 1021, 1024, 1031, 1543, 2039, 2048, 2053,
  3079, 4093, 4096, 4099, 6151, 8191, 8192,
];

/// a multiple of a typical table size (or of an arbitrary modulus up to 1100), either sign
pub fn modular_delta(rng: &mut Rng, span: i64) -> i64 {
  let m = if rng.chance(2, 3) { *rng.pick(&TABLE_SIZES) } else { rng.range(2, 1100) };
  let kmax = (span / m).clamp(1, 6);
  let k = rng.range(1, kmax);
  if rng.chance(1, 2) {
    m * k
  } else {
    -m * k
  }
}

/// a year related to y inside lo..=hi (falls back to a uniformly random year when the relation leaves the range)
pub fn related_year(rng: &mut Rng, y: i64, lo: i64, hi: i64) -> i64 {
  let cand = match rng.below(14) {
    0 => y,
    5 | 6 => y + modular_delta(rng, hi - lo),
    // decimal relations: append / drop a digit, swap the last two digits
    1 => y * 10 + rng.range(0, 9),
    2 => y / 10,
    3 => (y / 100) * 100 + (y % 10) * 10 + (y / 10) % 10,
    4 => rng.range(lo, hi),
    _ => y + *rng.pick(&YEAR_DELTAS),
  };
  if cand >= lo && cand <= hi {
    cand
  } else {
    let back = y - (cand - y);
    if back >= lo && back <= hi && back != y {
      back
    } else {
      rng.range(lo, hi)
    }
  }
}

fn clip_day(y: i64, m: i64, d: i64) -> i64 {
  let mut d = d.min(mdays_nominal(y, m));
  while !exists(y, m, d) && d > 1 {
    d -= 1;
  }
  if exists(y, m, d) {
    d
  } else {
    // the only month whose low days can be missing is October 1582 (5..14)
    15
  }
}

fn mdays_nominal(y: i64, m: i64) -> i64 {
  if y == 1582 && m == 10 {
    31
  } else {
    mdays(y, m)
  }
}

/// a civil day (day number) related to day n
pub fn related_day(rng: &mut Rng, n: i64) -> i64 {
  let c = cal();
  let (y, m, d) = c.date(n);
  let cand = match rng.below(18) {
    0 | 1 => n,
    // the day number a multiple of a table size away (a memo filed under `day number mod size`)
    16 => n + modular_delta(rng, 100_000),
    17 => {
      // the same month and day a multiple of a table size of years away
      let y2 = (y + modular_delta(rng, 9998)).clamp(1, 9999);
      c.dn(y2, m, clip_day(y2, m, d))
    }
    2 => n + if rng.chance(1, 2) { 1 } else { -1 },
    3 => n + rng.range(-8, 8),
    4 => n + rng.range(28, 32) * if rng.chance(1, 2) { 1 } else { -1 },
    5 => n + rng.range(58, 62) * if rng.chance(1, 2) { 1 } else { -1 },
    6 => n + rng.range(353, 385) * if rng.chance(1, 2) { 1 } else { -1 },
    7 => {
      // the month half a year away, same year
      let m2 = (m + 5) % 12 + 1;
      c.dn(y, m2, clip_day(y, m2, d))
    }
    8 => {
      // another month of the same year
      let m2 = rng.range(1, 12);
      c.dn(y, m2, clip_day(y, m2, d))
    }
    9 => {
      // across the nearest year boundary by a few days
      let edge = if m <= 6 { c.year_first(y) } else { c.year_first((y + 1).min(9999)) };
      edge + rng.range(-7, 6)
    }
    10 => {
      // month and day exchanged where that is a date
      if d <= 12 && exists(y, d, m) {
        c.dn(y, d, m)
      } else {
        n
      }
    }
    11 => {
      if rng.chance(1, 2) {
        rng.range(FIRST, LAST)
      } else {
        // mirrored inside its year: the first days of January <-> the last days of December, and so on
        let first = c.year_first(y);
        let next = if y < 9999 { c.year_first(y + 1) } else { LAST + 1 };
        first + (next - 1 - n)
      }
    }
    _ => {
      // the same month and day in a related year
      let y2 = related_year(rng, y, 1, 9999);
      c.dn(y2, m, clip_day(y2, m, d))
    }
  };
  if cand >= FIRST && cand <= LAST {
    cand
  } else {
    rng.range(FIRST, LAST)
  }
}

/// a starting day: uniformly random, or one of the places where calendars have seams
pub fn start_day(rng: &mut Rng) -> i64 {
  let c = cal();
  match rng.below(8) {
    0 => c.dn(1582, 10, 15) + rng.range(-40, 40),
    1 => {
      let y = rng.range(1, 9999);
      c.year_first(y) + rng.range(-6, 6).max(FIRST - c.year_first(y))
    }
    2 => {
      let y = rng.range(1, 9999);
      c.dn(y, 3, 1) + rng.range(-3, 1)
    }
    _ => rng.range(FIRST, LAST),
  }
  .clamp(FIRST, LAST)
}

/// an instant (absolute second = day number * 86400 + second of day) related to instant a
pub fn related_instant(rng: &mut Rng, a: i64) -> i64 {
  let n = a.div_euclid(86400);
  let s = a.rem_euclid(86400);
  let cand = match rng.below(12) {
    0 | 1 => a,
    2 => a + if rng.chance(1, 2) { 1 } else { -1 },
    3 => a + rng.range(-7200, 7200),
    4 => a + 7200 * rng.range(-12, 12),
    5 => n * 86400 + *rng.pick(&[0i64, 1, 3599, 3600, 43200, 82799, 82800, 86399]),
    6 => a + 86400 * if rng.chance(1, 2) { 1 } else { -1 },
    7 => rng.range(FIRST * 86400, LAST * 86400 + 86399),
    // the same clock time on a related day
    _ => related_day(rng, n) * 86400 + s,
  };
  cand.clamp(FIRST * 86400, LAST * 86400 + 86399)
}

/// Runs one single-thread sequence of 6..16 judged operations on related days.  `judge(day, rng)` performs one
/// operation on the library and returns (label of what it did, descriptions of wrong answers, answers judged).
/// The first wrong answer ends the sequence and is reported with the whole trace.
pub fn day_walk<F>(prefix: &str, what: &str, i: usize, seed: u64, lo: i64, hi: i64, log: &mut crate::log::Log, mut judge: F)
where
  F: FnMut(i64, &mut Rng) -> (String, Vec<String>, u64),
{
  let mut rng = Rng::new(crate::util::mix(seed, i as u64 ^ 0xD1A7));
  let len = rng.range(6, 16);
  let mut n = start_day(&mut rng).clamp(lo, hi);
  let key = format!("seq{}_{}", i, crate::model::cal::fmt_dn(n));
  let mut trace: Vec<String> = vec![];
  let r: Result<(Option<String>, u64), String> = (|| {
    let mut judged = 0u64;
    for step in 0..len {
      let (label, bad, k) = match crate::util::guard(std::panic::AssertUnwindSafe(|| judge(n, &mut rng))) {
        Ok(v) => v,
        Err(msg) => return Err(format!("{} in the operation on {}", msg, crate::model::cal::fmt_dn(n))),
      };
      trace.push(label);
      judged += k;
      if !bad.is_empty() {
        return Ok((Some(format!("step {} [{}]: {}", step, trace.join(" "), bad.join("; "))), judged));
      }
      n = related_day(&mut rng, n).clamp(lo, hi);
    }
    Ok((None, judged))
  })();
  log.ev(1);
  log.nt(1);
  match r {
    Ok((bad, judged)) => {
      log.count("history.sequences", 1);
      log.count("history.answers_judged", judged);
      if let Some(o) = bad {
        log.violate(format!("{}/history/{}", prefix, key), what, key.clone(), o, "the answers the oracle gives for each day of the sequence".into());
      }
    }
    Err(msg) => log.violate(format!("{}/panic-history/{}", prefix, key), what, format!("{} [{}]", key, trace.join(" ")), format!("panic: {}", msg), "no panic".into()),
  }
}

/// the same for instants (absolute seconds)
pub fn instant_walk<F>(prefix: &str, what: &str, i: usize, seed: u64, lo: i64, hi: i64, log: &mut crate::log::Log, mut judge: F)
where
  F: FnMut(i64, &mut Rng) -> (String, Vec<String>, u64),
{
  let mut rng = Rng::new(crate::util::mix(seed, i as u64 ^ 0x1A57));
  let len = rng.range(6, 16);
  let mut a = (start_day(&mut rng) * 86400 + rng.range(0, 86399)).clamp(lo, hi);
  let key = format!("seq{}_{}", i, crate::api::fmt_abs(a));
  let mut trace: Vec<String> = vec![];
  let r: Result<(Option<String>, u64), String> = (|| {
    let mut judged = 0u64;
    for step in 0..len {
      let (label, bad, k) = match crate::util::guard(std::panic::AssertUnwindSafe(|| judge(a, &mut rng))) {
        Ok(v) => v,
        Err(msg) => return Err(format!("{} in the operation on {}", msg, crate::api::fmt_abs(a))),
      };
      trace.push(label);
      judged += k;
      if !bad.is_empty() {
        return Ok((Some(format!("step {} [{}]: {}", step, trace.join(" "), bad.join("; "))), judged));
      }
      a = related_instant(&mut rng, a).clamp(lo, hi);
    }
    Ok((None, judged))
  })();
  log.ev(1);
  log.nt(1);
  match r {
    Ok((bad, judged)) => {
      log.count("history.sequences", 1);
      log.count("history.answers_judged", judged);
      if let Some(o) = bad {
        log.violate(format!("{}/history/{}", prefix, key), what, key.clone(), o, "the answers the oracle gives for each instant of the sequence".into());
      }
    }
    Err(msg) => log.violate(format!("{}/panic-history/{}", prefix, key), what, format!("{} [{}]", key, trace.join(" ")), format!("panic: {}", msg), "no panic".into()),
  }
}

pub const WALK_TEXT: &str = "each input derived from the previous one (same input, +-1, a few days / a month / half a year / a year away, the same month-day in a year differing by a cycle, a power of two or ten or a digit, month and day exchanged, across the nearest year boundary), every answer judged by the same oracle as the sweeps";
