//! C20 — festival and legal-holiday lookups are consistent in both directions.
use crate::api::*;
use crate::log::Log;
use crate::model::cal::{self, cal};
use crate::model::lunar_seq::{lunar_seq, LM};
use crate::model::terms::terms;
use crate::util::{guard, mix, par_range, Rng};
use crate::{Cfg, Meta, Tier};
use std::collections::BTreeMap;
use tyme4rs::tyme::enums::FestivalType;
use tyme4rs::tyme::festival::{LunarFestival, SolarFestival, LUNAR_FESTIVAL_DATA, LUNAR_FESTIVAL_NAMES, SOLAR_FESTIVAL_DATA, SOLAR_FESTIVAL_NAMES};
use tyme4rs::tyme::holiday::{LegalHoliday, LEGAL_HOLIDAY_DATA, LEGAL_HOLIDAY_NAMES};
use tyme4rs::tyme::lunar::LunarDay;
use tyme4rs::tyme::Culture;

#[derive(Clone, Copy, Debug)]
struct SolarRec {
  idx: i64,
  m: i64,
  d: i64,
  start: i64,
}

#[derive(Clone, Copy, Debug, PartialEq)]
enum LunarKind {
  Day(i64, i64),
  Term(i64),
  Eve,
}

fn num(s: &str) -> Result<i64, String> {
  if s.is_empty() || !s.bytes().all(|b| b.is_ascii_digit()) {
    return Err(format!("not a number: {:?}", s));
  }
  s.parse::<i64>().map_err(|e| e.to_string())
}

fn parse_solar() -> Result<Vec<SolarRec>, String> {
  let mut v = vec![];
  for (k, r) in SOLAR_FESTIVAL_DATA.split('@').enumerate() {
    if k == 0 {
      if !r.is_empty() {
        return Err("data does not start with '@'".into());
      }
      continue;
    }
    if r.len() != 11 {
      return Err(format!("record {:?} has length {}", r, r.len()));
    }
    if &r[2..3] != "0" {
      return Err(format!("record {:?}: civil festivals are day-type", r));
    }
    v.push(SolarRec { idx: num(&r[0..2])?, m: num(&r[3..5])?, d: num(&r[5..7])?, start: num(&r[7..11])? });
  }
  for (k, r) in v.iter().enumerate() {
    if r.idx != k as i64 {
      return Err(format!("record {} carries index {}", k, r.idx));
    }
  }
  if v.len() != SOLAR_FESTIVAL_NAMES.len() {
    return Err(format!("{} records for {} names", v.len(), SOLAR_FESTIVAL_NAMES.len()));
  }
  Ok(v)
}

fn parse_lunar() -> Result<Vec<LunarKind>, String> {
  let mut v = vec![];
  for (k, r) in LUNAR_FESTIVAL_DATA.split('@').enumerate() {
    if k == 0 {
      continue;
    }
    if r.len() < 3 || num(&r[0..2])? != (k - 1) as i64 {
      return Err(format!("record {:?} at position {}", r, k - 1));
    }
    v.push(match &r[2..3] {
      "0" if r.len() == 7 => LunarKind::Day(num(&r[3..5])?, num(&r[5..7])?),
      "1" if r.len() == 5 => LunarKind::Term(num(&r[3..5])?),
      "2" if r.len() == 3 => LunarKind::Eve,
      _ => return Err(format!("record {:?}", r)),
    });
  }
  if v.len() != LUNAR_FESTIVAL_NAMES.len() {
    return Err(format!("{} records for {} names", v.len(), LUNAR_FESTIVAL_NAMES.len()));
  }
  Ok(v)
}

#[derive(Clone, Copy, Debug)]
struct HolRec {
  dn: i64,
  y: i64,
  m: i64,
  d: i64,
  work: bool,
  idx: i64,
  offset: i64,
}

fn parse_holidays() -> Result<Vec<HolRec>, String> {
  let s = LEGAL_HOLIDAY_DATA;
  if s.len() % 13 != 0 {
    return Err(format!("length {} is not a multiple of 13", s.len()));
  }
  let mut v = vec![];
  for k in 0..s.len() / 13 {
    let r = &s[k * 13..k * 13 + 13];
    let (y, m, d) = (num(&r[0..4])?, num(&r[4..6])?, num(&r[6..8])?);
    if !cal::exists(y, m, d) {
      return Err(format!("record {} ({}) is not a real date", k, r));
    }
    let work = match &r[8..9] {
      "0" => true,
      "1" => false,
      x => return Err(format!("record {} work flag {:?}", k, x)),
    };
    let idx = num(&r[9..10])?;
    if idx >= LEGAL_HOLIDAY_NAMES.len() as i64 {
      return Err(format!("record {} holiday index {}", k, idx));
    }
    let sign = match &r[10..11] {
      "+" => 1,
      "-" => -1,
      x => return Err(format!("record {} sign {:?}", k, x)),
    };
    v.push(HolRec { dn: cal().dn(y, m, d), y, m, d, work, idx, offset: sign * num(&r[11..13])? });
  }
  Ok(v)
}

fn sf_tuple(f: &SolarFestival) -> (i64, Ymd, i64, String, i64) {
  (f.get_index() as i64, ymd(&f.get_day()), f.get_start_year() as i64, f.get_name(), matches!(f.get_type(), FestivalType::DAY) as i64)
}

/// one SolarFestival::from_index(y, idx) look-up against the table
fn solar_index_one(y: i64, r: &SolarRec, log: &mut Log) {
  log.ev(1);
  let key = format!("{:04}-{:02}", y, r.idx);
  let want = if y >= r.start { Some((r.idx, (y, r.m, r.d), r.start, SOLAR_FESTIVAL_NAMES[r.idx as usize].to_string(), 1)) } else { None };
  match guard(|| SolarFestival::from_index(y as isize, r.idx as usize).map(|f| sf_tuple(&f))) {
    Ok(got) => {
      if got != want {
        log.violate(format!("C20/solar-festival-by-index/{}", key), "SolarFestival::from_index", key.clone(), format!("{:?}", got), format!("{:?}", want));
      }
    }
    Err(msg) => log.violate(format!("C20/solar-festival-by-index/{}", key), "SolarFestival::from_index", key.clone(), format!("panic: {}", msg), format!("{:?}", want)),
  }
  log.count("solar.by_index_lookups", 1);
}

/// one SolarDay::get_festival look-up against the table
fn solar_date_one(n: i64, recs: &[SolarRec], log: &mut Log) {
  let c = cal();
  let (y, m, d) = c.date(n);
  log.ev(1);
  let want = recs.iter().find(|r| r.m == m && r.d == d && y >= r.start);
  let key = cal::fmt_dn(n);
  match guard(|| (sd_of_dn(n).get_festival().map(|f| sf_tuple(&f)), SolarFestival::from_ymd(y as isize, m as usize, d as usize).map(|f| sf_tuple(&f)))) {
    Ok((got, got2)) => {
      let w = want.map(|r| (r.idx, (y, m, d), r.start, SOLAR_FESTIVAL_NAMES[r.idx as usize].to_string(), 1));
      if got != w || got2 != w {
        log.violate(format!("C20/solar-festival-by-date/{}", key), "SolarDay::get_festival", key.clone(), format!("{:?} / from_ymd {:?}", got, got2), format!("{:?}", w));
      }
      if want.is_some() {
        log.count("solar.festival_days_found", 1);
        log.nt(1);
      } else if recs.iter().any(|r| r.m == m && r.d == d) {
        log.count("solar.festival_days_before_founding_year", 1);
        log.nt(1);
      }
    }
    Err(msg) => log.violate(format!("C20/solar-festival-by-date/{}", key), "SolarDay::get_festival", key.clone(), format!("panic: {}", msg), "an answer".into()),
  }
}

/// (year, index) pairs a careless memo key would confuse: decimal concatenation in either order, and year*K+index
/// with K below the list size
fn colliding_index_pairs(size: i64, y_lo: i64, y_hi: i64, arithmetic_stride: i64, seed: u64) -> Vec<((i64, i64), (i64, i64))> {
  use std::collections::HashMap;
  let mut out = vec![];
  for fmt in 0..2 {
    let mut map: HashMap<String, Vec<(i64, i64)>> = HashMap::new();
    for y in y_lo..=y_hi {
      for i in 0..size {
        let k = if fmt == 0 { format!("{}{}", y, i) } else { format!("{}{}", i, y) };
        map.entry(k).or_default().push((y, i));
      }
    }
    let mut groups: Vec<Vec<(i64, i64)>> = map.into_values().filter(|g| g.len() > 1).collect();
    groups.sort();
    for g in groups {
      for a in 0..g.len() {
        for b in a + 1..g.len() {
          out.push((g[a], g[b]));
        }
      }
    }
  }
  for k in [8i64, 10, 12] {
    if k >= size {
      continue;
    }
    for y in y_lo..y_hi {
      if y % arithmetic_stride != (seed as i64) % arithmetic_stride {
        continue;
      }
      for j in 0..size - k {
        out.push(((y, k + j), (y + 1, j)));
      }
    }
  }
  out
}

fn solar_year(y: i64, recs: &[SolarRec], by_date: bool, log: &mut Log) {
  let c = cal();
  // by date
  if by_date {
    let lo = c.year_first(y);
    let hi = c.year_first(y + 1) - 1;
    for n in lo..=hi {
      solar_date_one(n, recs, log);
    }
    // month/day pairs whose digits concatenate to the same string, back to back in both orders
    for k in 1..=9i64 {
      for (a, b) in [((1, 10 + k), (11, k)), ((1, 20 + k), (12, k)), ((11, k), (1, 10 + k)), ((12, k), (1, 20 + k))] {
        solar_date_one(c.dn(y, a.0, a.1), recs, log);
        solar_date_one(c.dn(y, b.0, b.1), recs, log);
        log.count("solar.digit_colliding_date_pairs", 1);
      }
    }
  }
  // by index and stepping
  let size = recs.len() as i64;
  for r in recs {
    let key = format!("{:04}-{:02}", y, r.idx);
    solar_index_one(y, r, log);
    if y >= r.start {
      let mut rng = Rng::new(mix(y as u64, r.idx as u64 ^ 0xC20));
      for n in [0i64, 1, -1, size, -size, size + 1, rng.range(-25, 25), rng.range(-400, 400)] {
        let ord = y * size + r.idx + n;
        let (ty, ti) = (ord.div_euclid(size), ord.rem_euclid(size));
        if ty < 1 || ty > 9999 {
          continue;
        }
        log.ev(1);
        let tr = recs[ti as usize];
        let want = if ty >= tr.start { Some((ti, (ty, tr.m, tr.d))) } else { None };
        match guard(|| SolarFestival::from_index(y as isize, r.idx as usize).unwrap().next(n as isize).map(|f| (f.get_index() as i64, ymd(&f.get_day())))) {
          Ok(got) => {
            if got != want {
              log.violate(format!("C20/solar-festival-next/{}_step_{:+}", key, n), "SolarFestival::next", key.clone(), format!("{:?}", got), format!("{:?}", want));
            }
          }
          Err(msg) => log.violate(format!("C20/solar-festival-next/{}_step_{:+}", key, n), "SolarFestival::next", key.clone(), format!("panic: {}", msg), format!("{:?}", want)),
        }
        log.count("solar.steps", 1);
      }
    }
  }
  if SolarFestival::from_index(y as isize, recs.len()).is_some() {
    log.violate(format!("C20/solar-festival-by-index/{:04}-{}", y, recs.len()), "SolarFestival::from_index", format!("{}", y), "Some".into(), "None for an index past the list".into());
  }
}

/// lunar date -> index of the festival that should be reported (the earliest-listed one that falls on it)
fn lunar_oracle(y: i64, m: i64, d: i64, kinds: &[LunarKind]) -> Option<i64> {
  let seq = lunar_seq();
  let t = terms();
  let k = seq.index_of(y, m)?;
  let lm = seq.months[k];
  let civil = lm.first + d - 1;
  for (i, kind) in kinds.iter().enumerate() {
    let hit = match *kind {
      LunarKind::Day(mm, dd) => m == mm && d == dd,
      LunarKind::Term(ti) => {
        // the term with that index counted from the lunar year's number (index 24 = the December solstice)
        let tt = t.v[crate::model::terms::Terms::idx(y, 0) + ti as usize];
        tt.dn == civil && y >= 1
      }
      LunarKind::Eve => d == lm.days && k + 1 < seq.months.len() && seq.months[k + 1].m == 1,
    };
    if hit {
      return Some(i as i64);
    }
  }
  None
}

fn lf_tuple(f: &LunarFestival) -> (i64, Lymd, String) {
  (f.get_index() as i64, lymd(&f.get_day()), f.get_name())
}

fn lunar_by_index(y: i64, kinds: &[LunarKind], log: &mut Log) {
  let size = kinds.len() as i64;
  for i in 0..size {
    lunar_index_one(y, i, kinds, log);
    lunar_index_steps(y, i, size, log);
  }
}

/// one LunarFestival::from_index(y, i) look-up against the oracle
fn lunar_index_one(y: i64, i: i64, kinds: &[LunarKind], log: &mut Log) {
  let seq = lunar_seq();
  let t = terms();
  let kind = &kinds[i as usize];
  {
    log.ev(1);
    log.count("lunar.by_index_lookups", 1);
    let key = format!("{:04}-{:02}", y, i);
    // where the festival falls, from the oracle side
    let want_day: Option<Lymd> = match *kind {
      LunarKind::Day(m, d) => Some((y, m, d)),
      LunarKind::Term(ti) => {
        let tt = t.v[crate::model::terms::Terms::idx(y, 0) + ti as usize];
        // lunar date of that civil day by the enumerated months (unique wherever months tile)
        let p = seq.months.partition_point(|lm| lm.first <= tt.dn);
        if p == 0 {
          None
        } else {
          let lm = seq.months[p - 1];
          if tt.dn < lm.first + lm.days {
            Some((lm.y, lm.m, tt.dn - lm.first + 1))
          } else {
            None
          }
        }
      }
      LunarKind::Eve => {
        let k = seq.year_start[y as usize + 1];
        let lm = seq.months[k - 1];
        Some((lm.y, lm.m, lm.days))
      }
    };
    let r = guard(|| {
      let f = LunarFestival::from_index(y as isize, i as usize);
      f.map(|f| {
        let back = f.get_day().get_festival().map(|g| lf_tuple(&g));
        (lf_tuple(&f), back, f.get_solar_term().map(|s| s.get_index() as i64))
      })
    });
    match r {
      Ok(Some((got, back, term))) => {
        if got.0 != i || got.2 != LUNAR_FESTIVAL_NAMES[i as usize] || Some(got.1) != want_day {
          log.violate(format!("C20/lunar-festival-by-index/{}", key), "LunarFestival::from_index", key.clone(), format!("{:?}", got), format!("index {} on {:?}", i, want_day));
        }
        if let LunarKind::Term(ti) = kind {
          if term != Some(ti % 24) {
            log.violate(format!("C20/lunar-festival-term/{}", key), "LunarFestival::get_solar_term", key.clone(), format!("{:?}", term), format!("{}", ti % 24));
          }
        }
        // the day's own lookup returns this festival, or an earlier-listed one sharing the day
        match back {
          Some(b) if b.1 == got.1 && b.0 <= i => {
            if b.0 < i {
              log.count("lunar.days_shared_with_an_earlier_festival", 1);
              log.nt(1);
            }
            let want_back = lunar_oracle(got.1 .0, got.1 .1, got.1 .2, kinds);
            if want_back != Some(b.0) {
              log.violate(format!("C20/lunar-festival-both-ways/{}", key), "get_day().get_festival()", key.clone(), format!("{:?}", b), format!("index {:?}", want_back));
            }
          }
          other => log.violate(format!("C20/lunar-festival-both-ways/{}", key), "get_day().get_festival()", key.clone(), format!("{:?}", other), format!("index {} (or an earlier-listed festival) on {:?}", i, got.1)),
        }
      }
      Ok(None) => log.violate(format!("C20/lunar-festival-by-index/{}", key), "LunarFestival::from_index", key.clone(), "None".into(), format!("index {} on {:?}", i, want_day)),
      Err(msg) => log.violate(format!("C20/lunar-festival-by-index/{}", key), "LunarFestival::from_index", key.clone(), format!("panic: {}", msg), format!("index {} on {:?}", i, want_day)),
    }
  }
}

/// stepping along the list with year carry
fn lunar_index_steps(y: i64, i: i64, size: i64, log: &mut Log) {
  let key = format!("{:04}-{:02}", y, i);
  {
    if y % 7 == 3 || y < 40 {
      for n in [-14i64, -13, -1, 0, 1, 12, 13, 14, 27] {
        let ord = y * size + i + n;
        let (ty, ti) = (ord.div_euclid(size), ord.rem_euclid(size));
        if ty < 1 || ty > 9998 {
          continue;
        }
        log.ev(1);
        log.count("lunar.steps", 1);
        match guard(|| LunarFestival::from_index(y as isize, i as usize).unwrap().next(n as isize).map(|f| (f.get_index() as i64, lymd(&f.get_day()))).zip(LunarFestival::from_index(ty as isize, ti as usize).map(|f| (f.get_index() as i64, lymd(&f.get_day())))) ) {
          Ok(Some((a, b))) => {
            if a != b || a.0 != ti {
              log.violate(format!("C20/lunar-festival-next/{}_step_{:+}", key, n), "LunarFestival::next", key.clone(), format!("{:?}", a), format!("{:?}", b));
            }
          }
          Ok(None) => log.violate(format!("C20/lunar-festival-next/{}_step_{:+}", key, n), "LunarFestival::next", key.clone(), "None".into(), format!("festival {} of year {}", ti, ty)),
          Err(msg) => log.violate(format!("C20/lunar-festival-next/{}_step_{:+}", key, n), "LunarFestival::next", key.clone(), format!("panic: {}", msg), format!("festival {} of year {}", ti, ty)),
        }
      }
    }
  }
}

fn lunar_by_date(y: i64, kinds: &[LunarKind], log: &mut Log) {
  let seq = lunar_seq();
  for lm in seq.year_slice(y) {
    for d in 1..=lm.days {
      lunar_date_one(lm, d, kinds, log);
    }
  }
  // month/day pairs whose digits concatenate to the same string, back to back in both orders
  let find = |m: i64| seq.year_slice(y).iter().find(|lm| lm.m == m);
  for k in 1..=9i64 {
    for (a, b) in [((1, 10 + k), (11, k)), ((1, 20 + k), (12, k)), ((11, k), (1, 10 + k)), ((12, k), (1, 20 + k))] {
      if let (Some(ma), Some(mb)) = (find(a.0), find(b.0)) {
        if a.1 <= ma.days && b.1 <= mb.days {
          lunar_date_one(ma, a.1, kinds, log);
          lunar_date_one(mb, b.1, kinds, log);
          log.count("lunar.digit_colliding_date_pairs", 1);
        }
      }
    }
  }
}

fn lunar_date_one(lm: &LM, d: i64, kinds: &[LunarKind], log: &mut Log) {
  {
    {
      log.ev(1);
      log.count("lunar.dates_looked_up", 1);
      let key = fmt_lymd((lm.y, lm.m, d));
      let want = lunar_oracle(lm.y, lm.m, d, kinds);
      match guard(|| LunarDay::from_ymd(lm.y as isize, lm.m as isize, d as usize).get_festival().map(|f| lf_tuple(&f))) {
        Ok(got) => {
          let g = got.as_ref().map(|x| x.0);
          if g != want || got.as_ref().map(|x| x.1 != (lm.y, lm.m, d)).unwrap_or(false) {
            log.violate(format!("C20/lunar-festival-by-date/{}", key), "LunarDay::get_festival", key.clone(), format!("{:?}", got), format!("index {:?}", want));
          }
          if want.is_some() {
            log.count("lunar.festival_days_found", 1);
            log.nt(1);
          }
          if lm.m < 0 {
            log.count("lunar.leap_month_dates", 1);
          }
        }
        Err(msg) => log.violate(format!("C20/lunar-festival-by-date/{}", key), "LunarDay::get_festival", key.clone(), format!("panic: {}", msg), format!("index {:?}", want)),
      }
    }
  }
}

fn hol_tuple(h: &LegalHoliday) -> (Ymd, bool, String) {
  (ymd(&h.get_day()), h.is_work(), h.get_name())
}

/// histories: a single-thread sequence of 6..16 festival look-ups on related days (by date and by index, civil
/// and lunar mixed); each look-up is judged by the same per-look-up oracle as the sweeps
fn history(i: usize, cfg: &Cfg, recs: &[SolarRec], kinds: &[LunarKind], log: &mut Log) {
  let c = cal();
  let seq = lunar_seq();
  let mut rng = Rng::new(mix(cfg.seed, i as u64 ^ 0x3C20));
  let len = rng.range(6, 16);
  let (lo, hi) = (c.year_first(31), c.year_first(9998) - 1);
  let mut n = crate::history::start_day(&mut rng).clamp(lo, hi);
  for _ in 0..len {
    let (y, _, _) = c.date(n);
    match rng.below(5) {
      0 | 1 => solar_date_one(n, recs, log),
      2 => {
        let k = seq.months.partition_point(|lm| lm.first <= n);
        if k > 0 {
          let lm = &seq.months[k - 1];
          // the reform eras (AD 237-240) and their neighbours are listed findings of the by-date sweep; not drawn
          if n < lm.first + lm.days && !(230..=245).contains(&lm.y) {
            lunar_date_one(lm, n - lm.first + 1, kinds, log);
          }
        }
      }
      3 => {
        if !(230..=245).contains(&y) {
          lunar_index_one(y, rng.range(0, kinds.len() as i64 - 1), kinds, log);
        }
      }
      _ => solar_index_one(y, &recs[rng.below(recs.len())], log),
    }
    log.count("history.lookups", 1);
    n = crate::history::related_day(&mut rng, n).clamp(lo, hi);
  }
  log.count("history.sequences", 1);
}

/// all worker threads step through the holiday table at the same time, each from records of other years
fn holiday_storm(i: usize, cfg: &Cfg, recs: &[HolRec], log: &mut Log) {
  let mut rng = Rng::new(mix(cfg.seed, i as u64 ^ 0x4C20));
  let k = (i * 37 + rng.below(5)) % recs.len();
  let r = recs[k];
  let n = *rng.pick(&[1i64, -1, 1, -1, 2, -2, 40, -40, 7, -7, 0]);
  let j = k as i64 + n;
  let want = if j >= 0 && (j as usize) < recs.len() { Some((recs[j as usize].y, recs[j as usize].m, recs[j as usize].d)) } else { None };
  log.ev(1);
  log.count("holiday.concurrent_steps", 1);
  let key = format!("{:04}-{:02}-{:02}", r.y, r.m, r.d);
  match guard(|| LegalHoliday::from_ymd(r.y as isize, r.m as usize, r.d as usize).and_then(|h| h.next(n as isize)).map(|h| ymd(&h.get_day()))) {
    Ok(got) => {
      if got != want {
        log.violate(format!("C20/holiday-next-concurrent/{}_step_{:+}", key, n), "LegalHoliday::next while other threads step in other years", key.clone(), format!("{:?}", got), format!("{:?}", want));
      }
    }
    Err(msg) => log.violate(format!("C20/holiday-next-concurrent/{}_step_{:+}", key, n), "LegalHoliday::next while other threads step in other years", key.clone(), format!("panic: {}", msg), format!("{:?}", want)),
  }
}

fn holidays(cfg: &Cfg, log: &mut Log) {
  let recs = match parse_holidays() {
    Ok(r) => r,
    Err(e) => {
      log.violate("C20/holiday-table/parse".into(), "LEGAL_HOLIDAY_DATA", "raw table".into(), e, "13-character records: date, work flag, holiday index, signed 2-digit offset".into());
      return;
    }
  };
  log.count("holiday.records", recs.len() as u64);
  {
    let nst = cfg.tier.pick(60_000usize, 600_000usize);
    let recs_ref = &recs;
    log.merge(par_range(nst, 4, |i, l| holiday_storm(i, cfg, recs_ref, l)));
    log.floor("holiday.concurrent_steps", cfg.tier.pick(50_000, 500_000));
  }
  let by_dn: BTreeMap<i64, HolRec> = recs.iter().map(|r| (r.dn, *r)).collect();
  for (k, r) in recs.iter().enumerate() {
    log.ev(1);
    log.nt(1);
    let key = format!("{:04}-{:02}-{:02}", r.y, r.m, r.d);
    if k > 0 && recs[k - 1].dn >= r.dn {
      log.violate(format!("C20/holiday-order/{}", key), "table order", key.clone(), format!("follows {}", cal::fmt_dn(recs[k - 1].dn)), "strictly increasing dates".into());
    }
    // the compensated festival day is a rest day of the table
    match by_dn.get(&(r.dn + r.offset)) {
      Some(t) if !t.work => {}
      other => log.violate(format!("C20/holiday-offset/{}", key), "offset target", key.clone(), format!("{:+} days -> {:?}", r.offset, other.map(|t| (cal::fmt_dn(t.dn), t.work))), "a rest-day record of the table".into()),
    }
    let want = Some(((r.y, r.m, r.d), r.work, LEGAL_HOLIDAY_NAMES[r.idx as usize].to_string()));
    match guard(|| (LegalHoliday::from_ymd(r.y as isize, r.m as usize, r.d as usize).map(|h| hol_tuple(&h)), sd(r.y, r.m, r.d).get_legal_holiday().map(|h| hol_tuple(&h)))) {
      Ok((a, b)) => {
        if a != want || b != want {
          log.violate(format!("C20/holiday-by-date/{}", key), "LegalHoliday::from_ymd", key.clone(), format!("{:?} / {:?}", a, b), format!("{:?}", want));
        }
      }
      Err(msg) => log.violate(format!("C20/holiday-by-date/{}", key), "LegalHoliday::from_ymd", key.clone(), format!("panic: {}", msg), format!("{:?}", want)),
    }
    // stepping: +-1 for every record, a few random n
    let mut rng = Rng::new(mix(cfg.seed, k as u64 ^ 0x1C20));
    let mut steps = vec![0i64, 1, -1, rng.range(-40, 40), rng.range(-(k as i64) - 3, (recs.len() - k) as i64 + 3)];
    if k % 50 == 0 {
      steps.push(-(k as i64));
      steps.push((recs.len() - 1 - k) as i64);
    }
    for n in steps {
      let j = k as i64 + n;
      let want = if j >= 0 && (j as usize) < recs.len() { Some((recs[j as usize].y, recs[j as usize].m, recs[j as usize].d)) } else { None };
      log.ev(1);
      log.count("holiday.steps", 1);
      match guard(|| LegalHoliday::from_ymd(r.y as isize, r.m as usize, r.d as usize).and_then(|h| h.next(n as isize)).map(|h| ymd(&h.get_day()))) {
        Ok(got) => {
          if got != want {
            log.violate(format!("C20/holiday-next/{}_step_{:+}", key, n), "LegalHoliday::next", key.clone(), format!("{:?}", got), format!("{:?}", want));
          }
        }
        Err(msg) => log.violate(format!("C20/holiday-next/{}_step_{:+}", key, n), "LegalHoliday::next", key.clone(), format!("panic: {}", msg), format!("{:?}", want)),
      }
    }
    log.sample(|| format!("holiday record {} {} {} offset {:+}", key, LEGAL_HOLIDAY_NAMES[r.idx as usize], if r.work { "work" } else { "rest" }, r.offset));
  }
  // membership: every civil date 1995..2035 is found iff it is a record
  let c = cal();
  for n in c.dn(1995, 1, 1)..=c.dn(2035, 12, 31) {
    log.ev(1);
    log.count("holiday.membership_dates", 1);
    let (y, m, d) = c.date(n);
    let want = by_dn.contains_key(&n);
    match guard(|| LegalHoliday::from_ymd(y as isize, m as usize, d as usize).is_some()) {
      Ok(got) => {
        if got != want {
          log.violate(format!("C20/holiday-membership/{}", cal::fmt_dn(n)), "LegalHoliday::from_ymd", cal::fmt_dn(n), format!("{}", got), format!("{}", want));
        }
      }
      Err(msg) => log.violate(format!("C20/holiday-membership/{}", cal::fmt_dn(n)), "LegalHoliday::from_ymd", cal::fmt_dn(n), format!("panic: {}", msg), format!("{}", want)),
    }
  }
  // dates whose digits occur MISALIGNED in the raw string (across record borders) must not be found
  let s = LEGAL_HOLIDAY_DATA.as_bytes();
  let mut mis = 0;
  for o in 0..s.len().saturating_sub(12) {
    if o % 13 == 0 {
      continue;
    }
    let w = &s[o..o + 13];
    let digits = w[..8].iter().all(|b| b.is_ascii_digit());
    if !(digits && (w[8] == b'0' || w[8] == b'1') && (b'0'..=b'8').contains(&w[9]) && (w[10] == b'+' || w[10] == b'-' || w[10] == b'|') && w[11].is_ascii_digit() && w[12].is_ascii_digit()) {
      continue;
    }
    let txt = std::str::from_utf8(&w[..8]).unwrap();
    let (y, m, d) = (num(&txt[0..4]).unwrap(), num(&txt[4..6]).unwrap(), num(&txt[6..8]).unwrap());
    if !cal::exists(y, m, d) || by_dn.contains_key(&c.dn(y, m, d)) {
      continue;
    }
    mis += 1;
    log.ev(1);
    if guard(|| LegalHoliday::from_ymd(y as isize, m as usize, d as usize).is_some()).unwrap_or(true) {
      log.violate(format!("C20/holiday-membership/{}", cal::fmt_date(y, m, d)), "LegalHoliday::from_ymd", cal::fmt_date(y, m, d), "found".into(), "not a record (digits occur only across a record border)".into());
    }
  }
  log.count("holiday.misaligned_candidates", mis);
  // walk from the first record forwards and from the last backwards
  let walk = guard(|| {
    let mut out = vec![];
    let mut h = LegalHoliday::from_ymd(recs[0].y as isize, recs[0].m as usize, recs[0].d as usize);
    while let Some(x) = h {
      out.push(ymd(&x.get_day()));
      if out.len() > recs.len() + 5 {
        break;
      }
      h = x.next(1);
    }
    let mut back = vec![];
    let l = recs[recs.len() - 1];
    let mut h = LegalHoliday::from_ymd(l.y as isize, l.m as usize, l.d as usize);
    while let Some(x) = h {
      back.push(ymd(&x.get_day()));
      if back.len() > recs.len() + 5 {
        break;
      }
      h = x.next(-1);
    }
    (out, back)
  });
  let all: Vec<Ymd> = recs.iter().map(|r| (r.y, r.m, r.d)).collect();
  match walk {
    Ok((f, b)) => {
      log.count("holiday.records_visited_by_walking", f.len() as u64);
      let mut rev = all.clone();
      rev.reverse();
      if f != all {
        log.violate("C20/holiday-walk/forward".into(), "next(1) from the first record", "walk".into(), format!("{} records, first mismatch at {:?}", f.len(), f.iter().zip(all.iter()).position(|(a, b)| a != b)), format!("all {} records in order", all.len()));
      }
      if b != rev {
        log.violate("C20/holiday-walk/backward".into(), "next(-1) from the last record", "walk".into(), format!("{} records", b.len()), format!("all {} records in reverse order", all.len()));
      }
    }
    Err(msg) => log.violate("C20/holiday-walk/forward".into(), "walk", "walk".into(), format!("panic: {}", msg), "no panic".into()),
  }
}

pub fn run(cfg: &Cfg) -> (Log, Meta) {
  crate::util::set_thread_cap(12);
  let mut log = Log::new();
  if let Err(e) = cal::self_test() {
    log.harness_error(&format!("oracle self-test failed: {}", e));
  }
  let t = terms();
  let seq = lunar_seq();
  if !t.errors.is_empty() || !t.monotonic() || !seq.errors.is_empty() {
    log.harness_error("term list / lunar enumeration unusable as an oracle (see C06 / C03)");
  }
  let srecs = match parse_solar() {
    Ok(r) => r,
    Err(e) => {
      log.violate("C20/solar-festival-table/parse".into(), "SOLAR_FESTIVAL_DATA", "raw".into(), e, "'@' + index + '0' + MMDD + start year".into());
      vec![]
    }
  };
  let kinds = match parse_lunar() {
    Ok(r) => r,
    Err(e) => {
      log.violate("C20/lunar-festival-table/parse".into(), "LUNAR_FESTIVAL_DATA", "raw".into(), e, "'@' + index + type + payload".into());
      vec![]
    }
  };
  if !srecs.is_empty() {
    let years: Vec<i64> = (1..=9998).collect();
    log.merge(par_range(years.len(), 16, |i, l| {
      let y = years[i];
      let by_date = (1900..=2100).contains(&y) || (cfg.tier == Tier::Thorough && y % 50 == 0);
      let by_index = cfg.tier == Tier::Thorough || by_date || y % 25 == (cfg.seed % 25) as i64 || y <= 30;
      if by_index {
        solar_year(y, &srecs, by_date, l);
      }
    }));
  }
  if !kinds.is_empty() && log.errors.is_empty() {
    let idx_years: Vec<i64> = match cfg.tier {
      Tier::Thorough => (1..=9998).collect(),
      Tier::Quick => (1..=9998).filter(|y| y % 25 == (cfg.seed % 25) as i64 || *y <= 30 || (230..=245).contains(y) || (1570..=1600).contains(y) || (1900..=2100).contains(y)).collect(),
    };
    log.merge(par_range(idx_years.len(), 2, |i, l| lunar_by_index(idx_years[i], &kinds, l)));
    // (year, index) pairs that a careless memo key would confuse, looked up back to back (order alternates)
    let lpairs = colliding_index_pairs(kinds.len() as i64, 1, 9998, cfg.tier.pick(10, 1), cfg.seed);
    log.merge(par_range(lpairs.len(), 8, |i, l| {
      let (a, b) = if i % 2 == 0 { lpairs[i] } else { (lpairs[i].1, lpairs[i].0) };
      lunar_index_one(a.0, a.1, &kinds, l);
      lunar_index_one(b.0, b.1, &kinds, l);
      l.count("lunar.colliding_index_pairs", 1);
      l.nt(1);
    }));
    if !srecs.is_empty() {
      let spairs = colliding_index_pairs(srecs.len() as i64, 1, 9998, cfg.tier.pick(10, 1), cfg.seed);
      log.merge(par_range(spairs.len(), 8, |i, l| {
        let (a, b) = if i % 2 == 0 { spairs[i] } else { (spairs[i].1, spairs[i].0) };
        solar_index_one(a.0, &srecs[a.1 as usize], l);
        solar_index_one(b.0, &srecs[b.1 as usize], l);
        l.count("solar.colliding_index_pairs", 1);
      }));
    }
    if !srecs.is_empty() {
      let nh = cfg.tier.pick(15_000usize, 250_000usize);
      log.merge(par_range(nh, 50, |i, l| history(i, cfg, &srecs, &kinds, l)));
      log.floor("history.lookups", cfg.tier.pick(100_000, 2_000_000));
    }
    let date_years: Vec<i64> = match cfg.tier {
      Tier::Thorough => (1900..=2100).collect(),
      Tier::Quick => (1900..=2100).filter(|y| y % 10 == (cfg.seed % 10) as i64 || *y == 2033 || *y == 2034).collect(),
    };
    log.merge(par_range(date_years.len(), 1, |i, l| lunar_by_date(date_years[i], &kinds, l)));
  }
  holidays(cfg, &mut log);
  log.floor("solar.festival_days_found", 1_000);
  log.floor("solar.festival_days_before_founding_year", 200);
  log.floor("solar.by_index_lookups", cfg.tier.pick(5_000, 90_000));
  log.floor("lunar.by_index_lookups", cfg.tier.pick(5_000, 120_000));
  log.floor("lunar.dates_looked_up", cfg.tier.pick(5_000, 70_000));
  log.floor("lunar.festival_days_found", cfg.tier.pick(200, 2_400));
  log.floor("lunar.colliding_index_pairs", cfg.tier.pick(5_000, 30_000));
  log.floor("lunar.digit_colliding_date_pairs", cfg.tier.pick(500, 6_000));
  log.floor("solar.digit_colliding_date_pairs", 7_000);
  log.floor("holiday.records", 500);
  log.floor("holiday.records_visited_by_walking", 500);
  log.floor("holiday.membership_dates", 14_000);
  let meta = Meta {
    rule: format!(
      "civil festivals: every date of 1900..2100 (found <=> month-day in the table and year >= founding year; index, name, start year, type), from_index for every (year, index) of {} years and an index past the list, next(n) for 8 step counts from every founded festival; lunar festivals: from_index for every (year, index 0..12) of {} years (falls on the oracle's day: fixed lunar date, Qingming / winter-solstice term day via the enumerated months, last day of the year; its day's own lookup returns it or an earlier-listed festival sharing the day; term index), next(n) for n in {{-14,-13,-1,0,1,12,13,14,27}} on 1/7 of the years, and every lunar date of {} years of 1900..2100 by date (found <=> the oracle says so, leap months never); history: every pair of (year, index) whose decimal concatenation in either order coincides, and (on 1/10 of the years in quick, all in thorough) whose year*K+index coincide for K in 8, 10, 12, looked up back to back in alternating order, and the month/day pairs (1,1k)/(11,k), (1,2k)/(12,k) back to back in both orders in every by-date year, and seeded single-thread sequences of 6..16 festival look-ups (civil by date, lunar by date, both by index) on days related to the previous one; holidays: all records of the raw table (13-character parse, real dates, strictly increasing, offset lands on a rest-day record, returned by from_ymd / get_legal_holiday with flag and name), next(n) for 0, +-1 and 2-4 seeded n from every record, full forward and backward walks, steps of 0, +-1, +-2, +-7, +-40 from records of different years on all worker threads at once, membership of every date 1995..2035, and every date whose digits occur misaligned across a record border. Oracle parsers are the harness' own.",
      match cfg.tier {
        Tier::Thorough => 9998,
        Tier::Quick => 630,
      },
      match cfg.tier {
        Tier::Thorough => 9998,
        Tier::Quick => 670,
      },
      match cfg.tier {
        Tier::Thorough => 201,
        Tier::Quick => 22,
      }
    ),
    assumptions: vec!["lunar dates and term days as reported by the library (C02/C03/C06)".into(), "New Year's Eve = last day of the last month of the lunar year in the enumerated sequence".into()],
    exhaustive: false,
  };
  (log, meta)
}
