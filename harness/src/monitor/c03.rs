//! C03 — lunar months tile time: 29/30 days, 12/13 per year, no gaps or overlaps.
use crate::api::*;
use crate::log::Log;
use crate::model::lunar_seq::{lunar_seq, LM};
use crate::util::{guard, mix, par_range, Rng};
use crate::{Cfg, Meta, Tier};
use tyme4rs::tyme::lunar::{LunarMonth, LunarYear};
use tyme4rs::tyme::Tyme;

fn fields(m: &LunarMonth) -> (i64, i64, i64, i64, i64) {
  (m.get_year() as i64, m.get_month_with_leap() as i64, first_dn(m), m.get_day_count() as i64, m.get_index_in_year() as i64)
}

fn lm_fields(x: &LM) -> (i64, i64, i64, i64, i64) {
  (x.y, x.m, x.first, x.days, x.idx)
}

fn step_window(tier: Tier) -> Vec<i64> {
  let w = tier.pick(14, 40);
  let mut v: Vec<i64> = (-w..=w).collect();
  v.extend_from_slice(&[25, -25, 37, -37, 100, -100, 1237, -1237]);
  v
}

fn check_year(y: i64, cfg: &Cfg, log: &mut Log) {
  let seq = lunar_seq();
  let n = seq.months.len();
  let s = seq.year_start[y as usize];
  let e = seq.year_start[y as usize + 1];
  let steps = step_window(cfg.tier);
  // --- per month
  for i in s..e {
    let cur = seq.months[i];
    let key = fmt_lym(cur.y, cur.m);
    log.ev(1);
    if cur.m < 0 {
      log.count("month.leap_months", 1);
      log.nt(1);
    }
    if cur.days == 29 {
      log.count("month.29_day_months", 1);
    } else if cur.days == 30 {
      log.count("month.30_day_months", 1);
    }
    if cur.days != 29 && cur.days != 30 {
      log.violate(format!("C03/length/{}", key), "get_day_count", key.clone(), format!("{}", cur.days), "29 or 30".into());
    }
    if i + 1 < n {
      let nx = seq.months[i + 1];
      if nx.first != cur.first + cur.days {
        log.violate(
          format!("C03/tile/{}", key),
          "first-day difference",
          format!("{} -> {}", key, fmt_lym(nx.y, nx.m)),
          format!("next month starts {} days after this one, which has {} days", nx.first - cur.first, cur.days),
          "starts exactly day_count days later".into(),
        );
      }
      if nx.y != cur.y {
        log.count("month.year_boundaries", 1);
      }
    }
    let r = guard(|| {
      let mut out: Vec<(&'static str, String, String, String)> = vec![];
      let m = LunarMonth::from_ym(cur.y as isize, cur.m as isize);
      // fresh construction (no memo) must give identical fields
      match LunarMonth::new(cur.y as isize, cur.m as isize) {
        Ok(f) => {
          if fields(&f) != fields(&m) {
            out.push(("fresh-vs-memo", key.clone(), format!("{:?}", fields(&m)), format!("{:?}", fields(&f))));
          }
        }
        Err(e) => out.push(("fresh-vs-memo", key.clone(), format!("refused: {}", e), "accepted".into())),
      }
      if fields(&m) != lm_fields(&cur) {
        out.push(("stable", key.clone(), format!("{:?}", fields(&m)), format!("{:?}", lm_fields(&cur))));
      }
      if cur.idx != (i - s) as i64 {
        out.push(("index-in-year", key.clone(), format!("{}", cur.idx), format!("{}", i - s)));
      }
      // walk: next(1) is the next element of the enumeration, and back
      if i + 1 < n {
        let nx = m.next(1);
        if fields(&nx) != lm_fields(&seq.months[i + 1]) {
          out.push(("walk", key.clone(), format!("next(1) = {:?}", fields(&nx)), format!("{:?}", lm_fields(&seq.months[i + 1]))));
        }
        let back = nx.next(-1);
        if lym(&back) != (cur.y, cur.m) {
          out.push(("forward-back", key.clone(), format!("{:?}", lym(&back)), format!("{:?}", (cur.y, cur.m))));
        }
      }
      for &k in &steps {
        // far steps cost ~0.3 ms each (one leap-table clone per year crossed): every 8th month in quick
        if k.abs() >= 100 && cfg.tier == Tier::Quick && (i as u64 % 8) != cfg.seed % 8 {
          continue;
        }
        let t = i as i64 + k;
        if t < 0 || t >= n as i64 {
          continue;
        }
        let got = m.next(k as isize);
        let want = seq.months[t as usize];
        if fields(&got) != lm_fields(&want) {
          out.push(("next-n", format!("{}_step_{:+}", key, k), format!("{:?}", fields(&got)), format!("{:?}", lm_fields(&want))));
        }
      }
      out
    });
    log.ev(steps.len() as u64);
    match r {
      Ok(v) => {
        for (mon, k, o, ex) in v {
          log.violate(format!("C03/{}/{}", mon, k), mon, key.clone(), o, ex);
        }
      }
      Err(msg) => log.violate(format!("C03/panic/{}", key), "month", key.clone(), format!("panic: {}", msg), "no panic".into()),
    }
    log.sample(|| format!("lunar month {} first day {} ({}), {} days, index {} ; next(n) checked for {} step counts", key, cur.first, crate::model::cal::fmt_dn(cur.first.clamp(crate::model::cal::FIRST, crate::model::cal::LAST)), cur.days, cur.idx, steps.len()));
  }
  // --- per year
  let ykey = format!("{:04}", y);
  log.ev(1);
  let slice: Vec<LM> = seq.months[s..e].to_vec();
  let sum: i64 = slice.iter().map(|m| m.days).sum();
  let leap = seq.leap[y as usize];
  let r = guard(|| {
    let mut out: Vec<(&'static str, String, String)> = vec![];
    let ly = LunarYear::from_year(y as isize);
    let ms = ly.get_months();
    let got: Vec<(i64, i64)> = ms.iter().map(|m| lym(m)).collect();
    let want: Vec<(i64, i64)> = slice.iter().map(|m| (m.y, m.m)).collect();
    if got != want {
      out.push(("year-months", format!("{:?}", got), format!("{:?}", want)));
    }
    let cnt = if leap > 0 { 13 } else { 12 };
    if ly.get_month_count() as i64 != cnt || ms.len() as i64 != cnt {
      out.push(("year-month-count", format!("count {} list {}", ly.get_month_count(), ms.len()), format!("{}", cnt)));
    }
    if ly.get_leap_month() as i64 != leap {
      out.push(("year-leap-unstable", format!("{}", ly.get_leap_month()), format!("{}", leap)));
    }
    // a leap month directly follows the regular month of the same number
    if leap > 0 {
      let pos = want.iter().position(|&(_, m)| m == -leap);
      let ok = match pos {
        Some(p) => p > 0 && want[p - 1].1 == leap,
        None => false,
      };
      if !ok {
        out.push(("year-leap-placement", format!("{:?}", want), format!("leap {} directly after regular {}", leap, leap)));
      }
    }
    if ly.get_day_count() as i64 != sum {
      out.push(("year-day-count", format!("{}", ly.get_day_count()), format!("{}", sum)));
    }
    out
  });
  match r {
    Ok(v) => {
      for (mon, o, ex) in v {
        log.violate(format!("C03/{}/{}", mon, ykey), mon, ykey.clone(), o, ex);
      }
    }
    Err(msg) => log.violate(format!("C03/panic-year/{}", ykey), "year", ykey.clone(), format!("panic: {}", msg), "no panic".into()),
  }
  let okl = if leap > 0 { (383..=385).contains(&sum) } else { (353..=355).contains(&sum) };
  if !okl {
    log.violate(format!("C03/year-length/{}", ykey), "sum of month lengths", ykey.clone(), format!("{} days, leap month {}", sum, leap), "353-355 without, 383-385 with a leap month".into());
  }
  if e < n {
    let dist = seq.months[e].first - seq.months[s].first;
    if dist != sum {
      log.violate(format!("C03/year-distance/{}", ykey), "new-year distance", ykey.clone(), format!("month lengths sum to {} but the next new year is {} days later", sum, dist), "equal".into());
    }
  }
  if leap > 0 {
    log.count("year.leap_years", 1);
  } else {
    log.count("year.common_years", 1);
  }
  if cfg.tier == Tier::Thorough {
    // random (month, n) pairs with large n
    let mut rng = Rng::new(mix(cfg.seed, y as u64 ^ 0xC03));
    for _ in 0..20 {
      let i = s + rng.below(e - s);
      let k = rng.range(-(i as i64), (n - 1 - i) as i64);
      let cur = seq.months[i];
      let want = seq.months[(i as i64 + k) as usize];
      log.ev(1);
      let r = guard(|| fields(&LunarMonth::from_ym(cur.y as isize, cur.m as isize).next(k as isize)));
      match r {
        Ok(f) => {
          if f != lm_fields(&want) {
            log.violate(format!("C03/next-n/{}_step_{:+}", fmt_lym(cur.y, cur.m), k), "next-n", fmt_lym(cur.y, cur.m), format!("{:?}", f), format!("{:?}", lm_fields(&want)));
          }
        }
        Err(msg) => log.violate(format!("C03/panic/{}_step_{:+}", fmt_lym(cur.y, cur.m), k), "next-n", fmt_lym(cur.y, cur.m), format!("panic: {}", msg), "no panic".into()),
      }
      log.count("month.random_far_steps", 1);
    }
  }
}

pub fn run(cfg: &Cfg) -> (Log, Meta) {
  let mut log = Log::new();
  let seq = lunar_seq();
  for e in &seq.errors {
    log.violate(format!("C03/enumerate/{}", e.split(':').next().unwrap_or("?").replace("lunar year ", "")), "enumerate", e.clone(), "panic".into(), "every month of years 0..9999 constructible".into());
  }
  log.merge(par_range(10000, 25, |y, l| check_year(y as i64, cfg, l)));
  let nh = cfg.tier.pick(30_000usize, 600_000usize);
  log.merge(par_range(nh, 100, |i, l| crate::monitor::month_history::month_history("C03", i, cfg.seed, 1, 9998, l)));
  log.floor("history.answers_judged", cfg.tier.pick(200_000, 4_000_000));
  log.floor("history.refused_then_valid", cfg.tier.pick(10_000, 200_000));
  log.floor("month.leap_months", 2000);
  log.floor("month.29_day_months", 40_000);
  log.floor("month.30_day_months", 40_000);
  log.floor("month.year_boundaries", 9_000);
  log.floor("year.leap_years", 2000);
  let meta = Meta {
    rule: format!(
      "exhaustive: all {} lunar months of years 0..9999 (labels from get_leap_month, each built by from_ym and freshly by new) are checked for 29/30 length, abutment with the following month, next(1)/next(-1), next(n) for {} step counts against the enumerated sequence{}, index in year; every year's month list, month count, leap placement, day count, 353-355/383-385 length and distance to the next new year; {} {}. Non-trivial = leap months (counted), history sequences.",
      seq.months.len(),
      step_window(cfg.tier).len(),
      if cfg.tier == Tier::Thorough { " plus 200,000 seeded-random (month, n) pairs over the whole range" } else { "" },
      nh,
      crate::monitor::month_history::RULE_TEXT
    ),
    assumptions: vec!["oracle = the enumerated sequence itself and first-day differences (relations between observed results); the astronomy behind first days is C05's subject".into()],
    exhaustive: true,
  };
  (log, meta)
}
