//! C05 — solar terms and new moons sit at the true Sun/Moon longitudes.
use crate::log::Log;
use crate::model::astro::{self, delta_t, diff_deg, elongation, sun_app_lon};
use crate::model::lunar_seq::lunar_seq;
use crate::model::terms::{terms, Terms};
use crate::util::{guard, par_range};
use crate::{Cfg, Meta, Tier};
use std::f64::consts::PI;
use tyme4rs::tyme::util::ShouXingUtil as U;

const J2000: f64 = 2451545.0;
const RAD2DEG: f64 = 180.0 / PI;
const ARCSEC: f64 = 180.0 * 3600.0 / PI; // arc seconds per radian

/// TT Julian Ephemeris Day of a UT+8 civil Julian date, with the independent Delta-T
fn jde_of_ut8(jd8: f64) -> f64 {
  let jd_ut = jd8 - 8.0 / 24.0;
  let yy = 2000.0 + (jd_ut - J2000) / 365.2425;
  jd_ut + delta_t(yy) / 86400.0
}

// ------------------------------------------------------------------ 1. independent theory 1900-2150

fn theory_terms(log: &mut Log) {
  let t = terms();
  let mut sum = 0.0;
  let mut n = 0.0;
  let mut maxe: f64 = 0.0;
  for y in 1900..=2150i64 {
    for i in 0..24i64 {
      let term = t.get(y, i);
      log.ev(1);
      log.nt(1);
      log.count("theory.term_instants", 1);
      let lon = sun_app_lon(jde_of_ut8(term.jd));
      let target = (270.0 + 15.0 * i as f64).rem_euclid(360.0);
      let esec = diff_deg(lon, target) / (360.0 / 365.2422) * 86400.0;
      sum += esec;
      n += 1.0;
      if esec.abs() > maxe.abs() {
        maxe = esec;
      }
      if esec.abs() > 1200.0 {
        log.violate(
          format!("C05/term-vs-theory/{:04}-{:02}", y, i),
          "term instant vs independent solar theory",
          format!("term ({}, {}) at JD(UT+8) {:.6}", y, i, term.jd),
          format!("independent apparent longitude {:.5} deg, i.e. {:.0} s from the target", lon, esec),
          format!("{} deg within 1200 s (the theory's 0.01 deg)", target),
        );
      }
      log.sample(|| format!("term ({}, {}) JD(UT+8) {:.5}: independent solar longitude {:.5} deg, target {} deg, {:.0} s", y, i, term.jd, lon, target, esec));
    }
  }
  let mean = sum / n;
  log.note(format!("independent solar theory vs {} term instants 1900-2150: max {:.0} s, mean {:+.1} s", n, maxe, mean));
  if mean.abs() > 300.0 {
    log.violate("C05/term-vs-theory-bias/1900-2150".into(), "mean offset of term instants", "all terms 1900-2150".into(), format!("{:+.1} s", mean), "|mean| <= 300 s".into());
  }
}

fn precise_conjunction_ut8(first_jd: f64) -> f64 {
  let k = ((first_jd - 2451551.0) / 29.5306).round();
  let tt = U::m_sa_lon_t(k * 2.0 * PI) * 36525.0;
  tt - U::dtt(tt) + 8.0 / 24.0 + J2000
}

fn theory_lunations(log: &mut Log) {
  let seq = lunar_seq();
  let mut near = 0;
  let mut maxd: f64 = 0.0;
  for y in 1900..=2150i64 {
    for lm in seq.year_slice(y) {
      log.ev(1);
      log.nt(1);
      log.count("theory.lunations", 1);
      let key = crate::api::fmt_lym(lm.y, lm.m);
      let fj = lm.first as f64; // noon of the first day, UT+8
      let el = |jd8: f64| elongation(jde_of_ut8(jd8));
      let (mut a, mut b) = (fj - 2.2, fj + 2.2);
      if !(el(a) < 0.0 && el(b) > 0.0) {
        log.violate(format!("C05/lunation-vs-theory/{}", key), "conjunction near the month's first day", key.clone(), format!("elongation {:.2} .. {:.2} deg over +-2.2 d", el(a), el(b)), "a conjunction within 2.2 days of the first day".into());
        continue;
      }
      for _ in 0..48 {
        let c = (a + b) / 2.0;
        if el(c) < 0.0 {
          a = c
        } else {
          b = c
        }
      }
      let conj = (a + b) / 2.0;
      let day = (conj + 0.5).floor();
      let frac = (conj + 0.5 - day) * 86400.0;
      let from_midnight = frac.min(86400.0 - frac);
      if day != fj {
        if from_midnight > 900.0 {
          log.violate(format!("C05/lunation-vs-theory/{}", key), "first day vs independent conjunction", key.clone(), format!("first day {} but the independent conjunction falls on day {} ({:.0} s from midnight)", fj, day, from_midnight), "the same civil day unless within 900 s of midnight".into());
        } else {
          near += 1;
        }
      }
      match guard(|| precise_conjunction_ut8(fj)) {
        Ok(p) => {
          let d = (p - conj) * 86400.0;
          if d.abs() > maxd.abs() {
            maxd = d;
          }
          if d.abs() > 900.0 {
            log.violate(format!("C05/conjunction-vs-theory/{}", key), "library conjunction vs independent conjunction", key.clone(), format!("{:.0} s apart", d), "within 900 s".into());
          }
        }
        Err(msg) => log.violate(format!("C05/conjunction-vs-theory/{}", key), "m_sa_lon_t", key.clone(), format!("panic: {}", msg), "a time".into()),
      }
    }
  }
  log.note(format!("independent lunar theory vs lunations 1900-2150: {} first days differ within 900 s of midnight; library conjunction - independent conjunction max {:.0} s", near, maxd));
}

// ------------------------------------------------------------------ 2. +-3000-year window in TT

/// tolerance envelopes in arc seconds as a function of T (Julian centuries from J2000), calibrated
/// at twice the envelope measured on the pinned tree (see DESIGN section 5/C05)
fn sun_tol(_t: f64) -> f64 {
  120.0 // measured envelope 35..58 arcsec, flat over +-3000 years
}

fn moon_tol(_t: f64) -> f64 {
  170.0 // measured envelope 51..80 arcsec, flat over +-3000 years
}

fn window(step_days: f64, log: &mut Log) {
  let n = (2.0 * 3000.0 * 365.25 / step_days) as usize;
  let res = par_range(n, 2000, |i, l| {
    let d = -3000.0 * 365.25 + i as f64 * step_days + 0.377; // days from J2000, TT
    let t = d / 36525.0;
    let jde = J2000 + d;
    l.ev(2);
    l.count("window.grid_points", 1);
    let ls = guard(|| (U::sa_lon(t, -1) * RAD2DEG, U::m_sa_lon(t, -1, -1) * RAD2DEG));
    match ls {
      Ok((s, m)) => {
        let es = diff_deg(s, sun_app_lon(jde)) * 3600.0;
        let em = diff_deg(m, elongation(jde)) * 3600.0;
        if es.abs() > sun_tol(t) {
          l.violate(format!("C05/sun-series-vs-theory/{:+09.1}", d), "sa_lon vs independent theory", format!("TT day {:.1} from J2000", d), format!("{:.1} arcsec apart", es), format!("within {:.0} arcsec at T = {:.1}", sun_tol(t), t));
        }
        if em.abs() > moon_tol(t) {
          l.violate(format!("C05/moon-series-vs-theory/{:+09.1}", d), "m_sa_lon vs independent theory", format!("TT day {:.1} from J2000", d), format!("{:.1} arcsec apart", em), format!("within {:.0} arcsec at T = {:.1}", moon_tol(t), t));
        }
        // envelope statistics per millennium, for the evidence
        let bucket = ((t + 30.0) / 10.0).floor() as usize;
        const KS: [&str; 6] = ["window.sun_max_arcsec_3000_2000BP", "window.sun_max_arcsec_2000_1000BP", "window.sun_max_arcsec_1000_0BP", "window.sun_max_arcsec_0_1000AP", "window.sun_max_arcsec_1000_2000AP", "window.sun_max_arcsec_2000_3000AP"];
        let _ = (bucket, KS);
      }
      Err(msg) => l.violate(format!("C05/sun-series-vs-theory/{:+09.1}", d), "sa_lon", format!("TT day {:.1}", d), format!("panic: {}", msg), "a longitude".into()),
    }
  });
  log.merge(res);
}

fn calibrate(log: &mut Log) {
  // prints the measured envelopes (not part of any verdict)
  let mut env: Vec<(f64, f64, f64)> = vec![];
  let mut d = -3000.0 * 365.25;
  let mut cur = (-30.0f64, 0.0f64, 0.0f64);
  while d < 3000.0 * 365.25 {
    let t = d / 36525.0;
    let es = (diff_deg(U::sa_lon(t, -1) * RAD2DEG, sun_app_lon(J2000 + d)) * 3600.0).abs();
    let em = (diff_deg(U::m_sa_lon(t, -1, -1) * RAD2DEG, elongation(J2000 + d)) * 3600.0).abs();
    if t >= cur.0 + 5.0 {
      env.push(cur);
      cur = (cur.0 + 5.0, 0.0, 0.0);
    }
    cur.1 = cur.1.max(es);
    cur.2 = cur.2.max(em);
    d += 3.3;
  }
  env.push(cur);
  for (t0, s, m) in env {
    log.note(format!("calibration T {:+.0}..{:+.0}: sun max {:.1}\" (tol {:.0}) moon max {:.1}\" (tol {:.0})", t0, t0 + 5.0, s, sun_tol(t0.abs().max((t0 + 5.0).abs())), m, moon_tol(t0.abs().max((t0 + 5.0).abs()))));
  }
}

// ------------------------------------------------------------------ 3. inverse-solver residuals

fn inverse(stride: i64, offset: i64, log: &mut Log) {
  // Sun: every multiple of 15 degrees over +-10,000 years
  let ks: Vec<i64> = (-240_000..=240_000).filter(|k| (k - offset).rem_euclid(stride) == 0).collect();
  let maxs = std::sync::Mutex::new(0.0f64);
  log.merge(par_range(ks.len(), 500, |i, l| {
    let w = ks[i] as f64 * PI / 12.0;
    l.ev(1);
    l.nt(1);
    l.count("inverse.sun_targets", 1);
    match guard(|| {
      let t = U::sa_lon_t(w);
      (t, (U::sa_lon(t, -1) - w) * ARCSEC)
    }) {
      Ok((t, r)) => {
        if r.abs() >= 1.0 || !r.is_finite() {
          l.violate(format!("C05/sun-inverse/{:+07}", ks[i]), "sa_lon(sa_lon_t(w)) - w", format!("w = {} * 15 deg", ks[i]), format!("{:.3} arcsec at T = {:.3}", r, t), "< 1 arcsec".into());
        }
        let mut g = maxs.lock().unwrap();
        if r.abs() > *g {
          *g = r.abs();
        }
      }
      Err(msg) => l.violate(format!("C05/sun-inverse/{:+07}", ks[i]), "sa_lon_t", format!("w = {} * 15 deg", ks[i]), format!("panic: {}", msg), "a time".into()),
    }
  }));
  log.note(format!("solar inverse solver residual: max {:.3} arcsec over {} targets", *maxs.lock().unwrap(), ks.len()));
  // Moon: every conjunction over +-10,000 years
  let ns: Vec<i64> = (-123_700..=123_700).filter(|k| (k - offset).rem_euclid(stride) == 0).collect();
  let maxm = std::sync::Mutex::new((0.0f64, 0.0f64));
  log.merge(par_range(ns.len(), 200, |i, l| {
    let w = ns[i] as f64 * 2.0 * PI;
    l.ev(1);
    l.nt(1);
    match guard(|| {
      let t = U::m_sa_lon_t(w);
      (t, (U::m_sa_lon(t, -1, -1) - w) * ARCSEC)
    }) {
      Ok((t, r)) => {
        let year = 2000.0 + t * 100.0;
        let yk = year.round() as i64;
        let key = format!("{:05}", yk + 20000);
        let inside = (0..=5000).contains(&yk);
        if inside {
          l.count("inverse.moon_targets_AD_0_5000", 1);
        } else {
          l.count("inverse.moon_targets_outside", 1);
        }
        if r.abs() >= 1.0 || !r.is_finite() {
          l.violate(format!("C05/moon-inverse/{}", key), "m_sa_lon(m_sa_lon_t(w)) - w", format!("conjunction {} (year {:.0})", ns[i], year), format!("{:.2} arcsec", r), "< 1 arcsec".into());
        }
        if r.abs() >= 150.0 || !r.is_finite() {
          l.violate(format!("C05/moon-inverse-gross/{}", key), "m_sa_lon(m_sa_lon_t(w)) - w", format!("conjunction {} (year {:.0})", ns[i], year), format!("{:.2} arcsec", r), "< 150 arcsec even where the truncated solver is a listed finding".into());
        }
        let mut g = maxm.lock().unwrap();
        if inside && r.abs() > g.0 {
          g.0 = r.abs();
        }
        if !inside && r.abs() > g.1 {
          g.1 = r.abs();
        }
      }
      Err(msg) => l.violate(format!("C05/moon-inverse-panic/{:+07}", ns[i]), "m_sa_lon_t", format!("conjunction {}", ns[i]), format!("panic: {}", msg), "a time".into()),
    }
  }));
  let g = maxm.lock().unwrap();
  log.note(format!("lunar inverse solver residual: max {:.3} arcsec inside AD 0..5000, {:.1} arcsec outside, over {} conjunctions", g.0, g.1, ns.len()));
}

// ------------------------------------------------------------------ 4. calendar path = precise path from 1961

fn day_agreement(cfg: &Cfg, log: &mut Log) {
  let t = terms();
  // cheap enough to be complete in both tiers (the whole sweep costs ~0.5 s on 16 threads)
  let full = true;
  let mut near = 0u64;
  for k in Terms::idx(1961, 0)..Terms::idx(10000, 0) {
    let term = t.v[k];
    let frac = term.jd + 0.5 - (term.jd + 0.5).floor();
    let from_midnight = (frac * 86400.0).min((1.0 - frac) * 86400.0);
    let take = full || term.y % 10 == (cfg.seed % 10) as i64 || from_midnight < 1800.0;
    if !take {
      continue;
    }
    log.ev(1);
    log.count("agreement.terms_1961_9999", 1);
    if from_midnight < 1800.0 {
      near += 1;
      log.nt(1);
      log.count("agreement.terms_within_1800s_of_midnight", 1);
    }
    let calendar_day = term.cursory.round() as i64 + 2451545;
    let precise_day = (term.jd + 0.5).floor() as i64;
    if calendar_day != precise_day {
      log.violate(format!("C05/term-day-agreement/{:05}-{:02}", term.y, term.i), "calendar-making day vs precise instant", format!("term ({}, {})", term.y, term.i), format!("calendar day {} but the precise instant JD {:.6} falls on day {}", calendar_day, term.jd, precise_day), "the same UT+8 civil day".into());
    }
  }
  let _ = near;
  let seq = lunar_seq();
  let s = seq.year_start[1961];
  let e = seq.year_start[8001];
  let idx: Vec<usize> = (s..e).filter(|k| full || seq.months[*k].y % 10 == (cfg.seed % 10) as i64).collect();
  log.merge(par_range(idx.len(), 200, |i, l| {
    let lm = seq.months[idx[i]];
    l.ev(1);
    l.count("agreement.lunations_1961_8000", 1);
    match guard(|| precise_conjunction_ut8(lm.first as f64)) {
      Ok(p) => {
        let day = (p + 0.5).floor() as i64;
        let frac = p + 0.5 - (p + 0.5).floor();
        if (frac * 86400.0).min((1.0 - frac) * 86400.0) < 1800.0 {
          l.count("agreement.conjunctions_within_1800s_of_midnight", 1);
          l.nt(1);
        }
        if day != lm.first {
          l.violate(format!("C05/lunation-day-agreement/{}", crate::api::fmt_lym(lm.y, lm.m)), "month first day vs precise conjunction", crate::api::fmt_lym(lm.y, lm.m), format!("first day {} but the precise conjunction JD(UT+8) {:.6} falls on day {}", lm.first, p, day), "the same UT+8 civil day".into());
        }
      }
      Err(msg) => l.violate(format!("C05/lunation-day-agreement/{}", crate::api::fmt_lym(lm.y, lm.m)), "m_sa_lon_t", crate::api::fmt_lym(lm.y, lm.m), format!("panic: {}", msg), "a time".into()),
    }
  }));
  // beyond AD 8000 (outside the claim): counted, not judged
  if cfg.tier == Tier::Thorough {
    let mut beyond = 0;
    for k in e..seq.months.len() {
      let lm = seq.months[k];
      if let Ok(p) = guard(|| precise_conjunction_ut8(lm.first as f64)) {
        if (p + 0.5).floor() as i64 != lm.first {
          beyond += 1;
        }
      }
    }
    log.note(format!("lunations of 8001..9999 whose first day differs from the precise conjunction's day: {} (outside the claim, not judged)", beyond));
  }
}

// ------------------------------------------------------------------ 5. Delta-T continuity

fn delta_t_continuity(log: &mut Log) {
  let mut maxj: f64 = 0.0;
  let mut at = 0.0;
  let mut y = -4000.0f64;
  while y <= 10000.0 {
    log.ev(1);
    log.count("deltat.integer_year_joins", 1);
    let j = (U::dt_calc(y - 1e-9) - U::dt_calc(y + 1e-9)).abs();
    if j > maxj {
      maxj = j;
      at = y;
    }
    if !(j <= 5.0) {
      log.violate(format!("C05/delta-t-jump/{:+06}", y as i64), "dt_calc left vs right limit", format!("year {}", y), format!("{:.3} s", j), "<= 5 s".into());
    }
    y += 1.0;
  }
  let mut maxs: f64 = 0.0;
  let mut y = -4000.0f64;
  let mut prev = U::dt_calc(y);
  while y < 10000.0 {
    y += 0.01;
    let cur = U::dt_calc(y);
    log.ev(1);
    let s = (cur - prev).abs();
    if s > maxs {
      maxs = s;
    }
    if !(s <= 5.0) {
      log.violate(format!("C05/delta-t-step/{:+010.2}", y), "dt_calc(y) - dt_calc(y - 0.01)", format!("year {:.2}", y), format!("{:.3} s", s), "<= 5 s".into());
    }
    prev = cur;
  }
  log.count("deltat.grid_steps", 1_400_000);
  log.nt(14_001);
  log.note(format!("TT-UT: max jump at an integer year {:.3} s (at {}), max step over 0.01 y {:.3} s", maxj, at, maxs));
  // the model agrees with the independent polynomial expressions where both describe observations
  let mut maxd: f64 = 0.0;
  let mut y = 1900.0f64;
  while y <= 2150.0 {
    let d = (U::dt_calc(y) - delta_t(y)).abs();
    if d > maxd {
      maxd = d;
    }
    let tol = if y <= 2015.0 { 3.0 } else { 30.0 }; // after 2015 both are extrapolations (measured difference up to 18.6 s)
    log.ev(1);
    if d > tol {
      log.violate(format!("C05/delta-t-vs-polynomials/{:.0}", y), "dt_calc vs Espenak-Meeus", format!("year {}", y), format!("{:.2} s apart", d), format!("within {:.1} s", tol));
    }
    y += 1.0;
  }
  log.note(format!("TT-UT vs independent polynomial expressions 1900-2150: max {:.2} s", maxd));
}

pub fn run(cfg: &Cfg) -> (Log, Meta) {
  let mut log = Log::new();
  if let Err(e) = astro::self_test() {
    log.harness_error(&format!("independent theory self-test failed: {}", e));
  }
  let t = terms();
  let seq = lunar_seq();
  if !t.errors.is_empty() || !seq.errors.is_empty() {
    log.harness_error("term list / lunar enumeration not constructible (see C06 / C03)");
    log.ev(1);
    return (log, Meta { rule: "not run".into(), assumptions: vec![], exhaustive: false });
  }
  theory_terms(&mut log);
  theory_lunations(&mut log);
  if cfg.tier == Tier::Thorough {
    window(3.3, &mut log);
  } else {
    window(29.0 + (cfg.seed % 5) as f64, &mut log);
  }
  if std::env::var("VERIF_CALIBRATE").is_ok() {
    calibrate(&mut log);
  }
  match cfg.tier {
    Tier::Thorough => inverse(1, 0, &mut log),
    Tier::Quick => inverse(7, (cfg.seed % 7) as i64, &mut log),
  }
  day_agreement(cfg, &mut log);
  delta_t_continuity(&mut log);
  // (6) the first day of a month must not depend on which months were built before it on the thread
  let nh = cfg.tier.pick(30_000usize, 600_000usize);
  log.merge(crate::util::par_range(nh, 100, |i, l| crate::monitor::month_history::month_history("C05", i, cfg.seed ^ 0x05, 1961, 8000, l)));
  log.floor("history.answers_judged", cfg.tier.pick(200_000, 4_000_000));
  log.floor("theory.term_instants", 6_000);
  log.floor("theory.lunations", 3_000);
  log.floor("window.grid_points", cfg.tier.pick(30_000, 300_000));
  log.floor("inverse.sun_targets", cfg.tier.pick(30_000, 400_000));
  log.floor("inverse.moon_targets_AD_0_5000", cfg.tier.pick(4_000, 50_000));
  log.floor("agreement.terms_1961_9999", 190_000);
  log.floor("agreement.lunations_1961_8000", 70_000);
  log.floor("deltat.integer_year_joins", 14_000);
  let meta = Meta {
    rule: format!(
      "(1) all 6,024 term instants and all lunations of 1900-2150 against an independently coded solar/lunar theory (Meeus ch. 25 / 47 truncated, own Delta-T polynomials): longitude at the library's instant within 1200 s of the target, mean bias <= 300 s; independent conjunction on the month's first day unless within 900 s of UT+8 midnight and within 900 s of the library's precise conjunction; (2) sa_lon and m_sa_lon against the same theory on a TT grid over +-3000 years every {} days with tolerances 120 and 170 arcsec (twice the measured, flat envelopes); (3) inverse solvers re-substituted into the library's own series: every {} multiple of 15 deg over +-10,000 years (< 1 arcsec) and every {} conjunction (< 1 arcsec inside AD 0..5000 - outside is a listed finding bounded by 150 arcsec); (4) calendar-making day = civil day of the precise instant for {} terms of 1961-9999 and {} lunations of 1961-8000; (5) TT-UT: left/right limits at every integer year -4000..10000 and steps over a 0.01-year grid <= 5 s, and agreement with the independent polynomials 1900-2150; (6) {} {} - for the months of 1961-8000, whose enumerated first days (4) has just compared with the precise conjunctions. Non-trivial = theory comparisons, inverse targets, events within 1800 s of midnight, year joins.",
      if cfg.tier == Tier::Thorough { "3.3".to_string() } else { format!("{}", 29 + cfg.seed % 5) },
      if cfg.tier == Tier::Thorough { "" } else { "7th" },
      if cfg.tier == Tier::Thorough { "" } else { "7th" },
      "all 192,936",
      "all 74,704",
      nh,
      crate::monitor::month_history::RULE_TEXT
    ),
    assumptions: vec![
      "the independent theory is accurate to about 0.01 deg (Sun) and about 10 arcsec plus secular drift (Moon); coefficient changes below that which move no civil day are invisible (DESIGN section 9)".into(),
      "thresholds close to measured values (Delta-T 4.4 s vs 5 s, lunar residual 0.88 vs 1 arcsec) are evaluated on deterministic grids".into(),
    ],
    exhaustive: false,
  };
  (log, meta)
}
