//! C08 — year pillar turns at Lichun, month pillar at each Jie, by the Five-Tigers rule.
use crate::api::*;
use crate::log::Log;
use crate::model::cal::{self, cal, FIRST, LAST};
use crate::model::ganzhi::{month_pillar, pillar_name, year_pillar};
use crate::model::terms::{terms, Term};
use crate::monitor::day_sample_years;
use crate::util::{guard, mix, par_range, Rng};
use crate::{Cfg, Meta, Tier};
use std::sync::atomic::{AtomicBool, Ordering};
use tyme4rs::tyme::sixtycycle::{SixtyCycleMonth, SixtyCycleYear};
use tyme4rs::tyme::Tyme;

static PAIRS: [AtomicBool; 720] = [const { AtomicBool::new(false) }; 720];

/// (sexagenary year number, month number 0 = Yin .. 11 = Chou) governed by term g
pub fn year_month_of(g: &Term) -> (i64, i64) {
  if g.i >= 3 {
    (g.y, (g.i - 3) / 2)
  } else if g.i >= 1 {
    (g.y - 1, 11)
  } else {
    (g.y - 1, 10)
  }
}

pub fn pillars_of(g: &Term) -> (i64, i64, i64, i64) {
  let (sy, k) = year_month_of(g);
  let yp = year_pillar(sy);
  (sy, k, yp, month_pillar(yp % 10, k))
}

fn check_days_of_year(y: i64, log: &mut Log) {
  let t = terms();
  let c = cal();
  let lo = c.year_first(y);
  let hi = if y == 9999 { LAST } else { c.year_first(y + 1) - 1 };
  for n in lo..=hi {
    let g = match t.governing_day(n) {
      Some(g) => t.v[g],
      None => continue,
    };
    log.ev(1);
    let key = cal::fmt_dn(n);
    let (sy, k, yp, mp) = pillars_of(&g);
    if n == g.dn && g.i % 2 == 1 {
      log.count("day.jie_days_seen", 1);
      log.nt(1);
      if g.i == 3 {
        log.count("day.lichun_days_seen", 1);
      }
    }
    let r = guard(|| {
      let d = sd_of_dn(n).get_sixty_cycle_day();
      let m = d.get_sixty_cycle_month();
      (d.get_year().get_index() as i64, d.get_month().get_index() as i64, m.get_sixty_cycle_year().get_year() as i64, m.get_index_in_year() as i64)
    });
    match r {
      Ok((gy, gm, gsy, gk)) => {
        if gy != yp || gsy != sy {
          log.violate(format!("C08/year-pillar/{}", key), "SixtyCycleDay year", key.clone(), format!("{} (year {})", pillar_name(gy), gsy), format!("{} (year {})", pillar_name(yp), sy));
        }
        if gm != mp || gk != k {
          log.violate(format!("C08/month-pillar/{}", key), "SixtyCycleDay month", key.clone(), format!("{} (month {})", pillar_name(gm), gk), format!("{} (month {})", pillar_name(mp), k));
        }
        if gy >= 0 && gy < 60 && gm >= 0 && gm < 60 {
          // only legal pairs: the month branch fixes k, the stem must follow from the year stem
          let kk = (gm % 12 - 2).rem_euclid(12);
          if month_pillar(gy % 10, kk) != gm {
            log.violate(format!("C08/illegal-pair/{}", key), "year/month pair", key.clone(), format!("{} {}", pillar_name(gy), pillar_name(gm)), "one of the 60x12 Five-Tigers pairs".into());
          } else {
            PAIRS[(gy * 12 + kk) as usize].store(true, Ordering::Relaxed);
          }
        }
      }
      Err(msg) => log.violate(format!("C08/day-view/{}", key), "SolarDay::get_sixty_cycle_day", key.clone(), format!("panic: {}", msg), format!("{} {}", pillar_name(yp), pillar_name(mp))),
    }
    log.sample(|| format!("{}: governed by term ({}, {}) -> sexagenary year {} {} month {} {}", key, g.y, g.i, sy, pillar_name(yp), k, pillar_name(mp)));
  }
}

fn time_view(a: i64) -> Result<(i64, i64), String> {
  guard(|| {
    let h = st_of_abs(a).get_sixty_cycle_hour();
    (h.get_year().get_index() as i64, h.get_month().get_index() as i64)
  })
}

fn probe_instant(a: i64, what: &'static str, log: &mut Log) {
  let t = terms();
  let n = a.div_euclid(86400);
  if n < FIRST || n > LAST {
    return;
  }
  let g = match t.governing_sec(a) {
    Some(g) => t.v[g],
    None => return,
  };
  log.ev(1);
  log.count(what, 1);
  let key = fmt_abs(a);
  let (_, _, yp, mp) = pillars_of(&g);
  match time_view(a) {
    Ok((gy, gm)) => {
      if gy != yp {
        log.violate(format!("C08/year-pillar-instant/{}", key), "SixtyCycleHour year", key.clone(), pillar_name(gy), format!("{} (term ({}, {}) began {})", pillar_name(yp), g.y, g.i, fmt_abs(g.sec)));
      }
      if gm != mp {
        log.violate(format!("C08/month-pillar-instant/{}", key), "SixtyCycleHour month", key.clone(), pillar_name(gm), format!("{} (term ({}, {}) began {})", pillar_name(mp), g.y, g.i, fmt_abs(g.sec)));
      }
    }
    Err(msg) => log.violate(format!("C08/time-view/{}", key), "SolarTime::get_sixty_cycle_hour", key.clone(), format!("panic: {}", msg), format!("{} {}", pillar_name(yp), pillar_name(mp))),
  }
}

/// time view around the Jie instants of civil year y, random instants, and day-view agreement
fn check_instants_of_year(y: i64, cfg: &Cfg, log: &mut Log) {
  let t = terms();
  for i in (1..24).step_by(2) {
    let g = t.get(y, i);
    if g.ambiguous {
      log.count("instant.jie_skipped_rounding_ambiguous", 1);
      continue;
    }
    probe_instant(g.sec - 1, "instant.second_before_jie", log);
    probe_instant(g.sec, "instant.second_of_jie", log);
    probe_instant(g.sec + 1, "instant.second_after_jie", log);
    log.nt(3);
  }
  let c = cal();
  let lo = c.year_first(y) * 86400;
  let hi = (if y == 9999 { LAST + 1 } else { c.year_first(y + 1) }) * 86400 - 1;
  let mut rng = Rng::new(mix(cfg.seed, y as u64 ^ 0xC08));
  for _ in 0..10 {
    probe_instant(rng.range(lo, hi), "instant.random", log);
  }
  // days without a Jie: the time view (hours < 23) equals the day view
  for _ in 0..3 {
    let n = rng.range(lo / 86400, hi / 86400);
    let g = match t.governing_day(n) {
      Some(g) => g,
      None => continue,
    };
    let jie_today = (t.v[g].dn == n && t.v[g].i % 2 == 1) || (g + 1 < t.v.len() && t.v[g + 1].dn == n);
    if jie_today {
      continue;
    }
    let h = rng.range(0, 22);
    let a = n * 86400 + h * 3600 + rng.range(0, 3599);
    log.ev(1);
    log.count("instant.day_view_agreement", 1);
    let key = fmt_abs(a);
    let dv = guard(|| {
      let d = sd_of_dn(n).get_sixty_cycle_day();
      (d.get_year().get_index() as i64, d.get_month().get_index() as i64)
    });
    match (dv, time_view(a)) {
      (Ok(d), Ok(tv)) => {
        if d != tv {
          log.violate(format!("C08/day-vs-time/{}", key), "day view vs time view", key.clone(), format!("time {} {}", pillar_name(tv.0), pillar_name(tv.1)), format!("day {} {}", pillar_name(d.0), pillar_name(d.1)));
        }
      }
      (d, tv) => log.violate(format!("C08/day-vs-time/{}", key), "day view vs time view", key.clone(), format!("{:?} / {:?}", d, tv), "both answer".into()),
    }
  }
}

/// time view at the seams of civil year y: the first and last six days of the year (where the lunar year of a day
/// can be the civil year, the one before, or — in the reform eras — the one after) and the two days around the
/// lunar new year the library reports.  The oracle is the term list, as for every other instant; the library's lunar
/// new year is only used to choose where to look.
fn check_time_view_seams(y: i64, cfg: &Cfg, log: &mut Log) {
  let c = cal();
  let first = c.year_first(y);
  let next = if y == 9999 { LAST + 1 } else { c.year_first(y + 1) };
  let mut rng = Rng::new(mix(cfg.seed, y as u64 ^ 0x5EA8));
  let mut days: Vec<i64> = Vec::with_capacity(16);
  for k in 0..6 {
    days.push(first + k);
    days.push(next - 1 - k);
  }
  if let Ok(Some(lny)) = guard(|| dn_of(&tyme4rs::tyme::lunar::LunarDay::from_ymd(y as isize, 1, 1).get_solar_day())) {
    days.push(lny - 1);
    days.push(lny);
  }
  for n in days {
    // 0001-01-01..06: the listed year-0 finding
    if n < FIRST + 6 || n > LAST - 40 {
      continue;
    }
    probe_instant(n * 86400 + 12 * 3600 + rng.range(0, 3599), "instant.year_seam", log);
    let a = if rng.chance(1, 2) { n * 86400 + rng.range(0, 3599) } else { n * 86400 + 82800 + rng.range(0, 3599) };
    probe_instant(a, "instant.year_seam", log);
    log.nt(2);
  }
}

/// sexagenary year Y: month list, pillars, first days, stepping
fn check_year_object(y: i64, cfg: &Cfg, log: &mut Log) {
  let t = terms();
  log.ev(1);
  let key = format!("{:04}", y);
  let yp = year_pillar(y);
  let mut rng = Rng::new(mix(cfg.seed, y as u64 ^ 0x8C08));
  let r = guard(|| {
    let mut out: Vec<(String, String, String)> = vec![];
    let sy = SixtyCycleYear::from_year(y as isize);
    if sy.get_sixty_cycle().get_index() as i64 != yp {
      out.push((format!("C08/year-object/{}", key), pillar_name(sy.get_sixty_cycle().get_index() as i64), pillar_name(yp)));
    }
    let ms = sy.get_months();
    if ms.len() != 12 {
      out.push((format!("C08/year-months/{}", key), format!("{} months", ms.len()), "12".into()));
    }
    for (k, m) in ms.iter().enumerate() {
      let k = k as i64;
      let want = month_pillar(yp % 10, k);
      let mk = format!("{}-{:02}", key, k);
      if m.get_sixty_cycle().get_index() as i64 != want || m.get_index_in_year() as i64 != k || m.get_sixty_cycle_year().get_year() as i64 != y || m.get_year().get_index() as i64 != yp {
        out.push((format!("C08/month-object/{}", mk), format!("{} index {} year {}", pillar_name(m.get_sixty_cycle().get_index() as i64), m.get_index_in_year(), m.get_sixty_cycle_year().get_year()), format!("{} index {} year {}", pillar_name(want), k, y)));
      }
      let by_index = SixtyCycleMonth::from_index(y as isize, k as isize);
      if by_index.get_sixty_cycle().get_index() as i64 != want || by_index.get_sixty_cycle_year().get_year() as i64 != y {
        out.push((format!("C08/month-from-index/{}", mk), format!("{} year {}", pillar_name(by_index.get_sixty_cycle().get_index() as i64), by_index.get_sixty_cycle_year().get_year()), format!("{} year {}", pillar_name(want), y)));
      }
      // first day = the Jie day (Lichun + 2k terms)
      let jie = t.v[crate::model::terms::Terms::idx(y, 3) + 2 * k as usize];
      if cal().in_range(jie.dn) {
        let fd = m.get_first_day();
        if dn_of(&fd.get_solar_day()) != Some(jie.dn) {
          out.push((format!("C08/month-first-day/{}", mk), fmt_ymd(ymd(&fd.get_solar_day())), cal::fmt_dn(jie.dn)));
        }
      }
      // stepping
      for n in [0i64, 1, -1, 12, -12, 13, -13, rng.range(-200, 200), rng.range(-20000, 20000)] {
        let ord = y * 12 + k + n;
        let (ty, tk) = (ord.div_euclid(12), ord.rem_euclid(12));
        if ty < 0 || ty > 9999 {
          continue;
        }
        let x = m.next(n as isize);
        let wantp = month_pillar(year_pillar(ty) % 10, tk);
        if x.get_sixty_cycle_year().get_year() as i64 != ty || x.get_sixty_cycle().get_index() as i64 != wantp {
          out.push((format!("C08/month-next/{}_step_{:+}", mk, n), format!("year {} {}", x.get_sixty_cycle_year().get_year(), pillar_name(x.get_sixty_cycle().get_index() as i64)), format!("year {} {}", ty, pillar_name(wantp))));
        }
      }
    }
    out
  });
  log.ev(12 * 11);
  log.count("year.month_objects", 12);
  match r {
    Ok(v) => {
      for (sig, o, e) in v {
        log.violate(sig, "SixtyCycleYear/Month objects", key.clone(), o, e);
      }
    }
    Err(msg) => log.violate(format!("C08/year-object/{}", key), "SixtyCycleYear", key.clone(), format!("panic: {}", msg), "no panic".into()),
  }
}

/// one history operation at instant a: the day view of its civil day, the instant view, or the month object
fn history_op(a: i64, rng: &mut Rng) -> (String, Vec<String>, u64) {
  let t = terms();
  let n = a.div_euclid(86400);
  let mut bad = vec![];
  match rng.below(5) {
    0 | 1 => {
      let label = format!("day-view({})", cal::fmt_dn(n));
      let g = match t.governing_day(n) {
        Some(g) => t.v[g],
        None => return (label, bad, 0),
      };
      let (sy, k, yp, mp) = pillars_of(&g);
      let d = sd_of_dn(n).get_sixty_cycle_day();
      let m = d.get_sixty_cycle_month();
      let got = (d.get_year().get_index() as i64, d.get_month().get_index() as i64, m.get_sixty_cycle_year().get_year() as i64, m.get_index_in_year() as i64);
      if got != (yp, mp, sy, k) {
        bad.push(format!("{} {} (year {} month {}), expected {} {} (year {} month {})", pillar_name(got.0), pillar_name(got.1), got.2, got.3, pillar_name(yp), pillar_name(mp), sy, k));
      }
      (label, bad, 1)
    }
    2 | 3 => {
      let label = format!("instant-view({})", fmt_abs(a));
      let gi = match t.governing_sec(a) {
        Some(g) => g,
        None => return (label, bad, 0),
      };
      let g = t.v[gi];
      // not judged within 2 s of a term instant (second rounding)
      if a - g.sec < 2 || (gi + 1 < t.v.len() && t.v[gi + 1].sec - a < 2) {
        return (label, bad, 0);
      }
      let (_, _, yp, mp) = pillars_of(&g);
      let h = st_of_abs(a).get_sixty_cycle_hour();
      let got = (h.get_year().get_index() as i64, h.get_month().get_index() as i64);
      if got != (yp, mp) {
        bad.push(format!("{} {}, expected {} {} (term ({}, {}) began {})", pillar_name(got.0), pillar_name(got.1), pillar_name(yp), pillar_name(mp), g.y, g.i, fmt_abs(g.sec)));
      }
      (label, bad, 1)
    }
    _ => {
      let g = match t.governing_day(n) {
        Some(g) => t.v[g],
        None => return ("month-object".into(), bad, 0),
      };
      let (sy, k, yp, mp) = pillars_of(&g);
      let label = format!("month-object({}, {})", sy, k);
      if sy < 1 || sy > 9998 {
        return (label, bad, 0);
      }
      let m = SixtyCycleMonth::from_index(sy as isize, k as isize);
      let jie = t.v[crate::model::terms::Terms::idx(sy, 3) + 2 * k as usize];
      let got = (m.get_sixty_cycle().get_index() as i64, m.get_year().get_index() as i64, dn_of(&m.get_first_day().get_solar_day()));
      if got != (mp, yp, Some(jie.dn)) {
        bad.push(format!("{} of year {} first day {:?}, expected {} of year {} first day {}", pillar_name(got.0), pillar_name(got.1), got.2.map(cal::fmt_dn), pillar_name(mp), pillar_name(yp), cal::fmt_dn(jie.dn)));
      }
      (label, bad, 1)
    }
  }
}

pub fn run(cfg: &Cfg) -> (Log, Meta) {
  crate::util::set_thread_cap(8);
  let mut log = Log::new();
  if let Err(e) = cal::self_test() {
    log.harness_error(&format!("oracle self-test failed: {}", e));
  }
  let t = terms();
  for e in &t.errors {
    log.harness_error(&format!("term enumeration: {}", e));
  }
  if !t.errors.is_empty() || !t.monotonic() {
    log.harness_error("term list unusable as an oracle (not constructible or not increasing; see C06)");
    log.ev(1);
    return (log, Meta { rule: "not run".into(), assumptions: vec![], exhaustive: false });
  }
  // self-test of the rule encoding: AD 2024 is Jiachen, its Yin month Bingyin; AD 1984 Jiazi
  if year_pillar(2024) != 40 || month_pillar(0, 0) != 2 || year_pillar(1984) != 0 || month_pillar(9, 11) != crate::model::ganzhi::pillar(1, 1) {
    log.harness_error("rule self-test failed");
  }
  let sample = day_sample_years(cfg);
  let years: Vec<i64> = match cfg.tier {
    Tier::Thorough => (1..=9998).collect(),
    Tier::Quick => sample.iter().cloned().filter(|y| *y <= 9998).collect(),
  };
  log.merge(par_range(years.len(), 2, |i, l| check_days_of_year(years[i], l)));
  log.merge(par_range(years.len(), 4, |i, l| check_instants_of_year(years[i], cfg, l)));
  // every civil year in both tiers
  log.merge(par_range(9998, 8, |i, l| check_time_view_seams(i as i64 + 1, cfg, l)));
  log.floor("instant.year_seam", 250_000);
  let obj_years: Vec<i64> = match cfg.tier {
    Tier::Thorough => (1..=9998).collect(),
    Tier::Quick => (1..=9998).filter(|y| y % 10 == (cfg.seed % 10) as i64 || *y < 5).collect(),
  };
  log.merge(par_range(obj_years.len(), 8, |i, l| check_year_object(obj_years[i], cfg, l)));
  let nh = cfg.tier.pick(30_000usize, 500_000usize);
  // from 0001-01-07: the days before are the listed year-0 finding
  log.merge(par_range(nh, 100, |i, l| crate::history::instant_walk("C08", "a sequence of year/month pillar look-ups at related instants on one thread", i, cfg.seed, (FIRST + 6) * 86400, (LAST - 40) * 86400, l, history_op)));
  log.floor("history.answers_judged", cfg.tier.pick(250_000, 4_000_000));
  let seen = PAIRS.iter().filter(|p| p.load(Ordering::Relaxed)).count() as u64;
  log.count("pairs.distinct_legal_year_month_pairs_seen", seen);
  log.floor("pairs.distinct_legal_year_month_pairs_seen", cfg.tier.pick(100, 700));
  log.floor("day.jie_days_seen", cfg.tier.pick(5_000, 110_000));
  log.floor("day.lichun_days_seen", cfg.tier.pick(400, 9_000));
  log.floor("instant.second_before_jie", cfg.tier.pick(5_000, 110_000));
  log.floor("instant.day_view_agreement", cfg.tier.pick(1_000, 20_000));
  let meta = Meta {
    rule: format!(
      "day view: every civil date of {} years (year pillar, sexagenary year number, month pillar, month number, legality of the pair); time view: the second before/of/after each of the 12 Jie instants, 10 seeded-random instants and 3 day-vs-time agreements per year of the same years; objects: month list, pillars, from_index, first day = Jie day and next(n) (9 step counts) for the 12 months of {} sexagenary years; histories: {} seeded single-thread sequences of 6..16 look-ups (day view, instant view, month object by index) at related instants - {}. Oracle: term list + Lichun/Jie/Five-Tigers rule. Non-trivial = Jie days and the seconds around Jie instants (counted); distinct legal pairs seen are counted ({} of 720).",
      years.len(),
      obj_years.len(),
      nh,
      crate::history::WALK_TEXT,
      seen
    ),
    assumptions: vec!["term instants are the library's own; rule encoding (Five Tigers rhyme) is the harness' own and self-tested on AD 1984/2024".into()],
    exhaustive: cfg.tier == Tier::Thorough,
  };
  (log, meta)
}
