//! C13 — containers list exactly their parts: year, half, season, month, day, hour.
use crate::api::*;
use crate::log::Log;
use crate::model::cal::{self, cal, day_pillar, FIRST, LAST};
use crate::model::ganzhi::{hour_pillar, pillar_name};
use crate::model::lunar_seq::lunar_seq;
use crate::model::terms::{terms, Terms};
use crate::util::{guard, mix, par_range, Rng};
use crate::{Cfg, Meta, Tier};
use tyme4rs::tyme::lunar::{LunarMonth, LunarYear};
use tyme4rs::tyme::sixtycycle::SixtyCycleMonth;
use tyme4rs::tyme::solar::{SolarHalfYear, SolarMonth, SolarSeason, SolarYear};

type V = Vec<(String, String, String)>;

fn civil_year(y: i64, log: &mut Log) {
  let c = cal();
  let ykey = format!("{:04}", y);
  log.ev(1 + 2 + 4 + 12);
  let r = guard(|| {
    let mut out: V = vec![];
    let sy = SolarYear::from_year(y as isize);
    let hs = sy.get_half_years();
    let ss = sy.get_seasons();
    let ms = sy.get_months();
    let hv: Vec<(i64, i64)> = hs.iter().map(|h| (h.get_year() as i64, h.get_index() as i64)).collect();
    if hv != vec![(y, 0), (y, 1)] {
      out.push((format!("C13/year-halves/{}", ykey), format!("{:?}", hv), "2 half-years (0, 1) of the year".into()));
    }
    let sv: Vec<(i64, i64)> = ss.iter().map(|s| (s.get_year() as i64, s.get_index() as i64)).collect();
    if sv != (0..4).map(|i| (y, i)).collect::<Vec<_>>() {
      out.push((format!("C13/year-seasons/{}", ykey), format!("{:?}", sv), "4 seasons 0..3 of the year".into()));
    }
    let mv: Vec<(i64, i64)> = ms.iter().map(|m| (m.get_year() as i64, m.get_month() as i64)).collect();
    if mv != (1..=12).map(|i| (y, i)).collect::<Vec<_>>() {
      out.push((format!("C13/year-months/{}", ykey), format!("{:?}", mv), "12 months 1..12 of the year".into()));
    }
    for i in 0..2i64 {
      let h = SolarHalfYear::from_index(y as isize, i as usize);
      let hm: Vec<(i64, i64)> = h.get_months().iter().map(|m| (m.get_year() as i64, m.get_month() as i64)).collect();
      if hm != (1..=6).map(|k| (y, 6 * i + k)).collect::<Vec<_>>() {
        out.push((format!("C13/half-months/{}-{}", ykey, i), format!("{:?}", hm), format!("months {}..{}", 6 * i + 1, 6 * i + 6)));
      }
      let hse: Vec<(i64, i64)> = h.get_seasons().iter().map(|s| (s.get_year() as i64, s.get_index() as i64)).collect();
      if hse != vec![(y, 2 * i), (y, 2 * i + 1)] {
        out.push((format!("C13/half-seasons/{}-{}", ykey, i), format!("{:?}", hse), format!("seasons {} and {}", 2 * i, 2 * i + 1)));
      }
    }
    for j in 0..4i64 {
      let s = SolarSeason::from_index(y as isize, j as usize);
      let sm: Vec<(i64, i64)> = s.get_months().iter().map(|m| (m.get_year() as i64, m.get_month() as i64)).collect();
      if sm != (1..=3).map(|k| (y, 3 * j + k)).collect::<Vec<_>>() {
        out.push((format!("C13/season-months/{}-{}", ykey, j), format!("{:?}", sm), format!("months {}..{}", 3 * j + 1, 3 * j + 3)));
      }
    }
    // months: day lists
    let mut total = 0i64;
    for m in 1..=12i64 {
      let sm = SolarMonth::from_ym(y as isize, m as usize);
      let mkey = format!("{}-{:02}", ykey, m);
      let se = sm.get_season();
      if (se.get_year() as i64, se.get_index() as i64) != (y, (m - 1) / 3) {
        out.push((format!("C13/month-season/{}", mkey), format!("{:?}", (se.get_year(), se.get_index())), format!("{:?}", (y, (m - 1) / 3))));
      }
      let first = c.dn(y, m, 1);
      let want: Vec<Ymd> = (0..cal::mdays(y, m)).map(|k| c.date(first + k)).collect();
      let days = match guard(|| sm.get_days()) {
        Ok(d) => d,
        Err(e) => {
          out.push((format!("C13/month-days/{}", mkey), format!("panic: {}", e), format!("{} dates", want.len())));
          continue;
        }
      };
      let got: Vec<Ymd> = days.iter().map(ymd).collect();
      if got != want {
        out.push((format!("C13/month-days/{}", mkey), format!("{} dates, first {:?} last {:?}", got.len(), got.first(), got.last()), format!("{} dates, first {:?} last {:?}", want.len(), want.first(), want.last())));
      }
      if sm.get_day_count() != got.len() {
        out.push((format!("C13/month-day-count/{}", mkey), format!("count {} list {}", sm.get_day_count(), got.len()), "equal".into()));
      }
      // day-of-year agrees with the concatenation
      if let (Some(f), Some(l)) = (days.first(), days.last()) {
        if f.get_index_in_year() as i64 != total || l.get_index_in_year() as i64 != total + got.len() as i64 - 1 {
          out.push((format!("C13/day-of-year/{}", mkey), format!("{}..{}", f.get_index_in_year(), l.get_index_in_year()), format!("{}..{}", total, total + got.len() as i64 - 1)));
        }
      }
      total += got.len() as i64;
    }
    if sy.get_day_count() as i64 != total {
      out.push((format!("C13/year-day-count/{}", ykey), format!("{}", sy.get_day_count()), format!("{} (sum of the month lists)", total)));
    }
    out
  });
  match r {
    Ok(v) => {
      for (sig, o, e) in v {
        log.violate(sig, "civil containers", ykey.clone(), o, e);
      }
    }
    Err(msg) => log.violate(format!("C13/panic-civil/{}", ykey), "civil containers", ykey.clone(), format!("panic: {}", msg), "no panic".into()),
  }
  log.count("civil.months_listed", 12);
  if y == 1582 {
    log.count("civil.october_1582_listed", 1);
    log.nt(1);
  }
  if cal::is_leap(y) {
    log.nt(1);
  }
  log.sample(|| format!("civil year {}: 2 halves, 4 seasons, 12 months, {} days listed", y, cal::ydays(y)));
}

fn lunar_year(y: i64, log: &mut Log) {
  let seq = lunar_seq();
  let slice = seq.year_slice(y);
  let ykey = format!("{:04}", y);
  log.ev(1);
  let r = guard(|| {
    let mut out: V = vec![];
    let got: Vec<(i64, i64)> = LunarYear::from_year(y as isize).get_months().iter().map(lym).collect();
    let want: Vec<(i64, i64)> = slice.iter().map(|m| (m.y, m.m)).collect();
    if got != want {
      out.push((format!("C13/lunar-year-months/{}", ykey), format!("{:?}", got), format!("{:?}", want)));
    }
    out
  });
  match r {
    Ok(v) => {
      for (sig, o, e) in v {
        log.violate(sig, "LunarYear::get_months", ykey.clone(), o, e);
      }
    }
    Err(msg) => log.violate(format!("C13/lunar-year-months/{}", ykey), "LunarYear::get_months", ykey.clone(), format!("panic: {}", msg), "no panic".into()),
  }
  for lm in slice {
    let mkey = fmt_lym(lm.y, lm.m);
    log.ev(1);
    log.count("lunar.months_listed", 1);
    if lm.m < 0 {
      log.nt(1);
    }
    if lm.first < FIRST || lm.first + lm.days - 1 > LAST {
      continue;
    }
    let r = guard(|| {
      let days = LunarMonth::from_ym(lm.y as isize, lm.m as isize).get_days();
      let labels: Vec<Lymd> = days.iter().map(lymd).collect();
      let civil: Vec<Option<i64>> = days.iter().map(|d| dn_of(&d.get_solar_day())).collect();
      (labels, civil)
    });
    match r {
      Ok((labels, civil)) => {
        let want: Vec<Lymd> = (1..=lm.days).map(|d| (lm.y, lm.m, d)).collect();
        if labels != want {
          log.violate(format!("C13/lunar-month-days/{}", mkey), "LunarMonth::get_days", mkey.clone(), format!("{} days {:?}..{:?}", labels.len(), labels.first(), labels.last()), format!("days 1..{}", lm.days));
        }
        let wantc: Vec<Option<i64>> = (0..lm.days).map(|k| Some(lm.first + k)).collect();
        if civil != wantc {
          log.violate(format!("C13/lunar-month-civil/{}", mkey), "LunarMonth::get_days -> get_solar_day", mkey.clone(), format!("{:?}..{:?}", civil.first(), civil.last()), format!("consecutive civil days {}..{}", lm.first, lm.first + lm.days - 1));
        }
      }
      Err(msg) => log.violate(format!("C13/lunar-month-days/{}", mkey), "LunarMonth::get_days", mkey.clone(), format!("panic: {}", msg), "no panic".into()),
    }
  }
}

fn hour_lists(n: i64, log: &mut Log) {
  // the reform-era days carry a wrong day pillar (listed finding of C02/C07); hour lists inherit it
  if cal::reform_era_day(n) || cal::reform_era_day(n - 1) {
    log.count("hours.days_skipped_reform_era", 1);
    return;
  }
  let key = cal::fmt_dn(n);
  log.ev(2);
  log.count("hours.days_sampled", 1);
  log.nt_distinct(n as u64);
  let r = guard(|| {
    let mut out: V = vec![];
    let sd = sd_of_dn(n);
    let ld = sd.get_lunar_day();
    let lh = ld.get_hours();
    let got: Vec<(Lymd, i64, i64, i64, i64)> = lh.iter().map(|h| (lymd(&h.get_lunar_day()), h.get_hour() as i64, h.get_minute() as i64, h.get_second() as i64, h.get_index_in_day() as i64)).collect();
    let me = lymd(&ld);
    let mut want = vec![(me, 0, 0, 0, 0)];
    for k in 1..=12i64 {
      want.push((me, 2 * k - 1, 0, 0, k));
    }
    if got != want {
      out.push((format!("C13/lunar-day-hours/{}", key), format!("{:?}", got.iter().map(|x| (x.1, x.4)).collect::<Vec<_>>()), "13 slots: 00:00 then 01:00..23:00 step 2".into()));
    }
    // sexagenary day: 12 slots from 23:00 of the previous day
    let sh = sd.get_sixty_cycle_day().get_hours();
    let mut gots = vec![];
    for h in sh.iter() {
      gots.push((abs_sec_of(&h.get_solar_time()), h.get_index_in_day() as i64, h.get_day().get_index() as i64, h.get_sixty_cycle().get_index() as i64));
    }
    let dp = day_pillar(n);
    let wants: Vec<(Option<i64>, i64, i64, i64)> = (0..12i64).map(|k| (Some((n - 1) * 86400 + 23 * 3600 + 7200 * k), k, dp, hour_pillar(dp % 10, k))).collect();
    if gots != wants {
      out.push((
        format!("C13/sixty-day-hours/{}", key),
        format!("{:?}", gots.iter().map(|x| (x.0.map(fmt_abs), x.1, pillar_name(x.2), pillar_name(x.3))).collect::<Vec<_>>()),
        format!("12 slots from {} every 2 h, day pillar {}, hour pillars from {}", fmt_abs((n - 1) * 86400 + 23 * 3600), pillar_name(dp), pillar_name(hour_pillar(dp % 10, 0))),
      ));
    }
    out
  });
  match r {
    Ok(v) => {
      for (sig, o, e) in v {
        log.violate(sig, "hour lists", key.clone(), o, e);
      }
    }
    Err(msg) => log.violate(format!("C13/panic-hours/{}", key), "hour lists", key.clone(), format!("panic: {}", msg), "no panic".into()),
  }
}

/// sexagenary months of year y: days from the Jie day to the day before the next Jie
fn sixty_months(y: i64, log: &mut Log) {
  let t = terms();
  for k in 0..12i64 {
    let a = t.v[Terms::idx(y, 3) + 2 * k as usize];
    let b = t.v[Terms::idx(y, 3) + 2 * k as usize + 2];
    if a.dn < FIRST + 10 || b.dn > LAST - 2 {
      continue;
    }
    let mkey = format!("{:04}-{:02}", y, k);
    log.ev(1);
    log.count("sixty.months_listed", 1);
    log.nt(1);
    let r = guard(|| {
      let m = SixtyCycleMonth::from_index(y as isize, k as isize);
      let days = m.get_days();
      let dns: Vec<Option<i64>> = days.iter().map(|d| dn_of(&d.get_solar_day())).collect();
      let pillars_ok = days.iter().all(|d| d.get_sixty_cycle_month().get_index_in_year() as i64 == k && d.get_sixty_cycle_month().get_sixty_cycle_year().get_year() as i64 == y);
      (dns, pillars_ok)
    });
    match r {
      Ok((dns, ok)) => {
        let want: Vec<Option<i64>> = (a.dn..b.dn).map(Some).collect();
        if dns != want {
          log.violate(
            format!("C13/sixty-month-days/{}", mkey),
            "SixtyCycleMonth::get_days",
            mkey.clone(),
            format!("{} days {:?}..{:?}", dns.len(), dns.first().and_then(|x| x.map(cal::fmt_dn)), dns.last().and_then(|x| x.map(cal::fmt_dn))),
            format!("{} days {}..{}", want.len(), cal::fmt_dn(a.dn), cal::fmt_dn(b.dn - 1)),
          );
        }
        if !ok {
          log.violate(format!("C13/sixty-month-membership/{}", mkey), "SixtyCycleMonth::get_days", mkey.clone(), "a listed day reports another month".into(), "every listed day belongs to the month".into());
        }
      }
      Err(msg) => log.violate(format!("C13/sixty-month-days/{}", mkey), "SixtyCycleMonth::get_days", mkey.clone(), format!("panic: {}", msg), "no panic".into()),
    }
  }
}

/// one history operation on civil day n: the list of one of the containers the day lies in
fn history_op(n: i64, rng: &mut Rng) -> (String, Vec<String>, u64) {
  let c = cal();
  let t = terms();
  let seq = lunar_seq();
  let (y, m, _) = c.date(n);
  let name = cal::fmt_dn(n);
  let mut bad = vec![];
  match rng.below(5) {
    0 => {
      let label = format!("civil-month({:04}-{:02})", y, m);
      let mi = ((y - 1) * 12 + m - 1) as usize;
      let (first, next) = (c.month_first[mi], c.month_first[mi + 1]);
      let got: Vec<Option<i64>> = SolarMonth::from_ym(y as isize, m as usize).get_days().iter().map(dn_of).collect();
      let want: Vec<Option<i64>> = (first..next).map(Some).collect();
      if got != want {
        bad.push(format!("{} days {:?}..{:?}, expected {} days {}..{}", got.len(), got.first().and_then(|x| x.map(cal::fmt_dn)), got.last().and_then(|x| x.map(cal::fmt_dn)), want.len(), cal::fmt_dn(first), cal::fmt_dn(next - 1)));
      }
      (label, bad, 1)
    }
    1 => {
      let k = seq.months.partition_point(|lm| lm.first <= n);
      if k == 0 || cal::reform_era_near(n) || cal::reform_era_near(n + 40) {
        return (format!("skip({})", name), bad, 0);
      }
      let lm = seq.months[k - 1];
      if n >= lm.first + lm.days || lm.first < FIRST || lm.first + lm.days > LAST || [8i64, 9, 23, 24, 25, 239, 240].contains(&lm.y) {
        return (format!("skip({})", name), bad, 0);
      }
      let label = format!("lunar-month({})", fmt_lym(lm.y, lm.m));
      let days = LunarMonth::from_ym(lm.y as isize, lm.m as isize).get_days();
      let got: Vec<(Lymd, Option<i64>)> = days.iter().map(|d| (lymd(d), dn_of(&d.get_solar_day()))).collect();
      let want: Vec<(Lymd, Option<i64>)> = (1..=lm.days).map(|d| ((lm.y, lm.m, d), Some(lm.first + d - 1))).collect();
      if got != want {
        bad.push(format!("{} days, first {:?}, last {:?}; expected {} days from {}", got.len(), got.first(), got.last(), want.len(), cal::fmt_dn(lm.first)));
      }
      (label, bad, 1)
    }
    2 => {
      // the sexagenary month the day lies in: from its Jie day to the day before the next
      let gi = match t.governing_day(n) {
        Some(g) => g,
        None => return (format!("skip({})", name), bad, 0),
      };
      let ai = if t.v[gi].i % 2 == 1 { gi } else { gi - 1 };
      if ai + 2 >= t.v.len() || ai < 24 {
        return (format!("skip({})", name), bad, 0);
      }
      let (a, b) = (t.v[ai], t.v[ai + 2]);
      let (sy, k) = crate::model::pillars::year_month_of(&a);
      if a.dn < FIRST + 10 || b.dn > LAST - 2 || sy < 2 || sy > 9997 {
        return (format!("skip({})", name), bad, 0);
      }
      let label = format!("sixty-month({}, {})", sy, k);
      let got: Vec<Option<i64>> = SixtyCycleMonth::from_index(sy as isize, k as isize).get_days().iter().map(|d| dn_of(&d.get_solar_day())).collect();
      let want: Vec<Option<i64>> = (a.dn..b.dn).map(Some).collect();
      if got != want {
        bad.push(format!("{} days {:?}..{:?}, expected {} days {}..{}", got.len(), got.first().and_then(|x| x.map(cal::fmt_dn)), got.last().and_then(|x| x.map(cal::fmt_dn)), want.len(), cal::fmt_dn(a.dn), cal::fmt_dn(b.dn - 1)));
      }
      (label, bad, 1)
    }
    3 => {
      let label = format!("civil-year({:04})", y);
      let sy = SolarYear::from_year(y as isize);
      let ms = sy.get_months();
      let got = (ms.len(), ms.iter().map(|x| x.get_day_count() as i64).sum::<i64>(), sy.get_day_count() as i64, sd_of_dn(n).get_index_in_year() as i64);
      let want = (12usize, cal::ydays(y), cal::ydays(y), n - c.year_first(y));
      if got != want {
        bad.push(format!("{:?}, expected {:?} (months, sum of month lengths, year length, day of year)", got, want));
      }
      (label, bad, 1)
    }
    _ => {
      let ly = (y - rng.range(0, 1)).max(0);
      let label = format!("lunar-year({})", ly);
      let got: Vec<(i64, i64)> = LunarYear::from_year(ly as isize).get_months().iter().map(lym).collect();
      let want: Vec<(i64, i64)> = seq.year_slice(ly).iter().map(|x| (x.y, x.m)).collect();
      if got != want {
        bad.push(format!("{:?}, expected {:?}", got, want));
      }
      (label, bad, 1)
    }
  }
}

/// all worker threads list the same few containers (8 neighbouring lunar years, half of them leap; their months;
/// the civil months and sexagenary months of the same years) over and over at the same time: a listing must not
/// depend on what another thread is listing at that moment
fn storm(i: usize, cfg: &Cfg, log: &mut Log) {
  let seq = lunar_seq();
  let c = cal();
  let mut rng = Rng::new(mix(cfg.seed, (i / 4000) as u64 ^ 0x5C13));
  // one neighbourhood per 4,000 listings, shared by all threads
  let y0 = rng.range(40, 9980);
  let mut r2 = Rng::new(mix(cfg.seed, i as u64 ^ 0x6C13));
  let y = y0 + r2.range(0, 7);
  if (230..=245).contains(&y) {
    return;
  }
  log.ev(1);
  log.count("storm.listings", 1);
  match r2.below(4) {
    0 | 1 => {
      let want: Vec<(i64, i64)> = seq.year_slice(y).iter().map(|m| (m.y, m.m)).collect();
      match guard(|| {
        let ly = LunarYear::from_year(y as isize);
        (ly.get_months().iter().map(lym).collect::<Vec<(i64, i64)>>(), ly.get_month_count() as usize)
      }) {
        Ok((got, count)) => {
          if got != want || count != want.len() {
            log.violate(format!("C13/storm-lunar-year-months/{:04}", y), "LunarYear::get_months while other threads list other years", format!("{}", y), format!("{:?} (count {})", got, count), format!("{:?}", want));
          }
        }
        Err(msg) => log.violate(format!("C13/storm-lunar-year-months/{:04}", y), "LunarYear::get_months while other threads list other years", format!("{}", y), format!("panic: {}", msg), format!("{:?}", want)),
      }
    }
    2 => {
      let sl = seq.year_slice(y);
      let lm = sl[r2.below(sl.len())];
      if lm.first < FIRST || lm.first + lm.days - 1 > LAST {
        return;
      }
      match guard(|| LunarMonth::from_ym(lm.y as isize, lm.m as isize).get_days().iter().map(|d| (lymd(d), dn_of(&d.get_solar_day()))).collect::<Vec<_>>()) {
        Ok(got) => {
          let want: Vec<(Lymd, Option<i64>)> = (1..=lm.days).map(|d| ((lm.y, lm.m, d), Some(lm.first + d - 1))).collect();
          if got != want {
            log.violate(format!("C13/storm-lunar-month-days/{}", fmt_lym(lm.y, lm.m)), "LunarMonth::get_days while other threads list other months", fmt_lym(lm.y, lm.m), format!("{} days, first {:?}", got.len(), got.first()), format!("{} days from {}", want.len(), lm.first));
          }
        }
        Err(msg) => log.violate(format!("C13/storm-lunar-month-days/{}", fmt_lym(lm.y, lm.m)), "LunarMonth::get_days while other threads list other months", fmt_lym(lm.y, lm.m), format!("panic: {}", msg), "the month's days".into()),
      }
    }
    _ => {
      let m = r2.range(1, 12);
      let mi = ((y - 1) * 12 + m - 1) as usize;
      let (first, next) = (c.month_first[mi], c.month_first[mi + 1]);
      match guard(|| SolarMonth::from_ym(y as isize, m as usize).get_days().iter().map(dn_of).collect::<Vec<_>>()) {
        Ok(got) => {
          let want: Vec<Option<i64>> = (first..next).map(Some).collect();
          if got != want {
            log.violate(format!("C13/storm-month-days/{:04}-{:02}", y, m), "SolarMonth::get_days while other threads list other months", format!("{:04}-{:02}", y, m), format!("{} days", got.len()), format!("{} days", want.len()));
          }
        }
        Err(msg) => log.violate(format!("C13/storm-month-days/{:04}-{:02}", y, m), "SolarMonth::get_days while other threads list other months", format!("{:04}-{:02}", y, m), format!("panic: {}", msg), "the month's days".into()),
      }
    }
  }
}

pub fn run(cfg: &Cfg) -> (Log, Meta) {
  crate::util::set_thread_cap(10);
  let mut log = Log::new();
  if let Err(e) = cal::self_test() {
    log.harness_error(&format!("oracle self-test failed: {}", e));
  }
  let t = terms();
  let seq = lunar_seq();
  if !t.errors.is_empty() || !t.monotonic() || !seq.errors.is_empty() {
    log.harness_error("term list / lunar enumeration unusable as an oracle (see C06 / C03)");
  }
  log.merge(par_range(9999, 16, |i, l| civil_year(i as i64 + 1, l)));
  let lyears: Vec<i64> = match cfg.tier {
    Tier::Thorough => (0..=9999).collect(),
    Tier::Quick => (0..=9999).filter(|y| y % 8 == (cfg.seed % 8) as i64 || *y < 30 || (236..=241).contains(y) || *y > 9990).collect(),
  };
  log.merge(par_range(lyears.len(), 8, |i, l| lunar_year(lyears[i], l)));
  if t.errors.is_empty() && t.monotonic() {
    let ndays = cfg.tier.pick(2_000usize, 200_000usize);
    log.merge(par_range(ndays, 50, |i, l| {
      let mut rng = Rng::new(mix(cfg.seed, i as u64 ^ 0xC13));
      let n = if i % 10 == 0 { cal().dn(1582, 10, 15) + rng.range(-20, 20) } else { rng.range(cal().dn(2, 1, 1), cal().dn(9998, 12, 31)) };
      hour_lists(n, l)
    }));
    let syears: Vec<i64> = match cfg.tier {
      Tier::Thorough => (2..=9997).collect(),
      Tier::Quick => (2..=9997).filter(|y| y % 20 == (cfg.seed % 20) as i64 || *y <= 30 || (236..=242).contains(y) || (1580..=1584).contains(y)).collect(),
    };
    log.merge(par_range(syears.len(), 2, |i, l| sixty_months(syears[i], l)));
    let nh = cfg.tier.pick(15_000usize, 250_000usize);
    log.merge(par_range(nh, 50, |i, l| crate::history::day_walk("C13", "a sequence of container lists on related days on one thread", i, cfg.seed, FIRST + 40, LAST - 40, l, history_op)));
    log.floor("history.answers_judged", cfg.tier.pick(100_000, 2_000_000));
    log.floor("sixty.months_listed", cfg.tier.pick(3_000, 100_000));
    log.floor("hours.days_sampled", cfg.tier.pick(1_000, 100_000));
  }
  let nstorm = cfg.tier.pick(200_000usize, 3_000_000usize);
  log.merge(par_range(nstorm, 16, |i, l| storm(i, cfg, l)));
  log.floor("storm.listings", cfg.tier.pick(150_000, 2_500_000));
  log.floor("civil.months_listed", 119_988);
  log.floor("civil.october_1582_listed", 1);
  log.floor("lunar.months_listed", cfg.tier.pick(10_000, 120_000));
  let meta = Meta {
    rule: format!(
      "civil containers exhaustive (every year 1..9999: 2 halves, 4 seasons, 12 months nested; every month's day list = the existing dates in order, length = day count, day-of-year = position in the concatenation, year length = sum); lunar: month list and day list (labels 1..n and consecutive civil days) of every month of {} lunar years; hour lists (13 lunar-day slots, 12 sexagenary-day slots with roll-over at 23:00 and Five-Rats hour pillars) on {} seeded-random days (1/10 around the 1582 cut-over); day lists of the 12 sexagenary months of {} years against Jie days; a storm of listings (lunar years, lunar months, civil months of 8 neighbouring years per 4,000 listings) on all worker threads at once; histories: {} seeded single-thread sequences of 6..16 lists (the civil month, lunar month and sexagenary month a day lies in, the civil year's months and lengths with the day of year, the lunar year's month list) on related days - {}. Non-trivial = leap years, October 1582, leap lunar months, sexagenary months, distinct sampled days.",
      lyears.len(),
      cfg.tier.pick(2_000, 200_000),
      match cfg.tier {
        Tier::Thorough => 9996,
        Tier::Quick => (2..=9997).filter(|y| y % 20 == (cfg.seed % 20) as i64 || *y <= 30 || (236..=242).contains(y) || (1580..=1584).contains(y)).count(),
      },
      cfg.tier.pick(15_000, 250_000),
      crate::history::WALK_TEXT
    ),
    assumptions: vec!["term days from the library (C06); lunar month sequence as observed (C03)".into()],
    exhaustive: false,
  };
  (log, meta)
}
