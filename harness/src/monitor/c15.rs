//! C15 — term-anchored day series: Nines, Dog days, Plum rains, pentads, commanding stems.
use crate::api::*;
use crate::log::Log;
use crate::model::cal::{self, cal, day_pillar};
use crate::model::ganzhi::{stem_of, STEMS};
use crate::model::terms::terms;
use crate::monitor::day_sample_years;
use crate::util::{guard, par_range};
use crate::{Cfg, Meta, Tier};
use tyme4rs::tyme::enums::HideHeavenStemType;

/// classical allotment of commanding stems per month branch (month number k: 0 = Yin .. 11 = Chou),
/// transcribed from the rule text, last entry = "the rest"
fn allotment(k: i64) -> Vec<(&'static str, i64)> {
  match k {
    0 => vec![("戊", 7), ("丙", 7), ("甲", 99)],
    1 => vec![("甲", 10), ("乙", 99)],
    2 => vec![("乙", 9), ("癸", 3), ("戊", 99)],
    3 => vec![("戊", 5), ("庚", 9), ("丙", 99)],
    4 => vec![("丙", 10), ("己", 9), ("丁", 99)],
    5 => vec![("丁", 9), ("乙", 3), ("己", 99)],
    6 => vec![("戊", 10), ("壬", 3), ("庚", 99)],
    7 => vec![("庚", 10), ("辛", 99)],
    8 => vec![("辛", 9), ("丁", 3), ("戊", 99)],
    9 => vec![("戊", 7), ("甲", 5), ("壬", 99)],
    10 => vec![("壬", 10), ("癸", 99)],
    _ => vec![("癸", 9), ("辛", 3), ("己", 99)],
  }
}

/// (stem index, kind 0 residual / 1 middle / 2 main, day index inside the allotment)
fn commanding(k: i64, d: i64) -> (i64, i64, i64) {
  let a = allotment(k);
  let mut start = 0;
  for (j, (s, n)) in a.iter().enumerate() {
    if d < start + n {
      let kind = if j + 1 == a.len() {
        2
      } else if j == 0 {
        0
      } else {
        1
      };
      return (stem_of(s), kind, d - start);
    }
    start += n;
  }
  (-1, -1, -1)
}

fn kind_code(t: HideHeavenStemType) -> i64 {
  match t {
    HideHeavenStemType::RESIDUAL => 0,
    HideHeavenStemType::MIDDLE => 1,
    HideHeavenStemType::MAIN => 2,
  }
}

fn check_year(y: i64, log: &mut Log) {
  let t = terms();
  let c = cal();
  let lo = c.year_first(y);
  let hi = c.year_first(y + 1) - 1;
  // anchors of the year
  let ws_prev = t.get(y, 0).dn; // December of y-1
  let ws_this = t.get(y + 1, 0).dn; // December of y
  let summer = t.get(y, 12).dn;
  let autumn = t.get(y, 15).dn;
  let grain = t.get(y, 11).dn;
  let heat = t.get(y, 13).dn;
  let stem = |n: i64| day_pillar(n) % 10;
  let branch = |n: i64| day_pillar(n) % 12;
  let g1 = summer + (6 - stem(summer)).rem_euclid(10);
  let g3 = g1 + 20;
  let long_middle = g3 + 20 < autumn;
  let plum_start = grain + (2 - stem(grain)).rem_euclid(10);
  let plum_end = heat + (7 - branch(heat)).rem_euclid(12);
  if long_middle {
    log.count("year.twenty_day_middle_dog_period", 1);
  } else {
    log.count("year.ten_day_middle_dog_period", 1);
  }
  if stem(summer) == 6 {
    log.count("year.summer_solstice_is_a_geng_day", 1);
  }
  if g3 + 20 == autumn {
    log.count("year.fifth_geng_is_the_start_of_autumn_day", 1);
  }
  if stem(grain) == 2 {
    log.count("year.grain_in_ear_is_a_bing_day", 1);
  }
  if branch(heat) == 7 {
    log.count("year.slight_heat_is_a_wei_day", 1);
  }
  for n in lo..=hi {
    let key = cal::fmt_dn(n);
    log.ev(5);
    // ---- oracle
    let nine: Option<(i64, i64)> = {
      let w = if n >= ws_this { ws_this } else { ws_prev };
      let d = n - w;
      if d >= 0 && d < 81 {
        Some((d / 9, d % 9))
      } else {
        None
      }
    };
    let dog: Option<(i64, i64)> = {
      let d = n - g3;
      let mid = if long_middle { 20 } else { 10 };
      if d < 0 {
        None
      } else if d < 10 {
        Some((0, d))
      } else if d < 10 + mid {
        Some((1, d - 10))
      } else if d < 20 + mid {
        Some((2, d - 10 - mid))
      } else {
        None
      }
    };
    let plum: Option<(i64, i64)> = if n < plum_start || n > plum_end {
      None
    } else if n == plum_end {
      Some((1, 0))
    } else {
      Some((0, n - plum_start))
    };
    let g = t.v[t.governing_day(n).unwrap()];
    let d = n - g.dn;
    let idx = (d / 5).min(2);
    let pentad = (g.i * 3 + idx, d - 5 * idx);
    let jie = if g.i % 2 == 1 { g } else { t.v[t.governing_day(n).unwrap() - 1] };
    let k = (jie.i - 3).rem_euclid(24) / 2;
    let cmd = commanding(k, n - jie.dn);
    if nine.is_some() {
      log.count("day.nine_days", 1);
    }
    if dog.is_some() {
      log.count("day.dog_days", 1);
    }
    if plum.is_some() {
      log.count("day.plum_rain_days", 1);
    }
    if nine.is_some() || dog.is_some() || plum.is_some() || cmd.2 == 0 || pentad.1 == 0 {
      log.nt(1);
    }
    // ---- library
    let r = guard(|| {
      let sd = sd_of_dn(n);
      let nd = sd.get_nine_day().map(|x| (x.get_nine().get_index() as i64, x.get_day_index() as i64));
      let dd = sd.get_dog_day().map(|x| (x.get_dog().get_index() as i64, x.get_day_index() as i64));
      let pr = sd.get_plum_rain_day().map(|x| (x.get_plum_rain().get_index() as i64, x.get_day_index() as i64));
      let ph = sd.get_phenology_day();
      let ph = (ph.get_phenology().get_index() as i64, ph.get_day_index() as i64);
      let hh = sd.get_hide_heaven_stem_day();
      let hs = hh.get_hide_heaven_stem();
      let hh = (hs.get_heaven_stem().get_index() as i64, kind_code(hs.get_type()), hh.get_day_index() as i64);
      (nd, dd, pr, ph, hh)
    });
    match r {
      Ok((nd, dd, pr, ph, hh)) => {
        if nd != nine {
          log.violate(format!("C15/nine/{}", key), "SolarDay::get_nine_day", key.clone(), format!("{:?}", nd), format!("{:?} (winter solstice days {} / {})", nine, cal::fmt_dn(ws_prev.max(cal::FIRST)), cal::fmt_dn(ws_this)));
        }
        if dd != dog {
          log.violate(format!("C15/dog/{}", key), "SolarDay::get_dog_day", key.clone(), format!("{:?}", dd), format!("{:?} (third Geng day {}, start of autumn {})", dog, cal::fmt_dn(g3), cal::fmt_dn(autumn)));
        }
        if pr != plum {
          log.violate(format!("C15/plum-rain/{}", key), "SolarDay::get_plum_rain_day", key.clone(), format!("{:?}", pr), format!("{:?} (first Bing {}, first Wei {})", plum, cal::fmt_dn(plum_start), cal::fmt_dn(plum_end)));
        }
        if ph != pentad {
          log.violate(format!("C15/pentad/{}", key), "SolarDay::get_phenology_day", key.clone(), format!("{:?}", ph), format!("{:?} (day {} of term {})", pentad, d, g.i));
        }
        if hh != cmd {
          log.violate(
            format!("C15/commanding-stem/{}", key),
            "SolarDay::get_hide_heaven_stem_day",
            key.clone(),
            format!("{} kind {} day {}", STEMS.get(hh.0 as usize).unwrap_or(&"?"), hh.1, hh.2),
            format!("{} kind {} day {} (day {} of month {})", STEMS.get(cmd.0 as usize).unwrap_or(&"?"), cmd.1, cmd.2, n - jie.dn, k),
          );
        }
      }
      Err(msg) => log.violate(format!("C15/panic/{}", key), "term-anchored series", key.clone(), format!("panic: {}", msg), "no panic".into()),
    }
    log.sample(|| format!("{}: nine {:?} dog {:?} plum {:?} pentad {:?} commanding ({}, kind {}, day {})", key, nine, dog, plum, pentad, STEMS[cmd.0 as usize], cmd.1, cmd.2));
  }
}

type DayOracle = (Option<(i64, i64)>, Option<(i64, i64)>, Option<(i64, i64)>, (i64, i64), (i64, i64, i64));

/// the five series on civil day n, re-derived from the term days of its year (the same derivation as in
/// `check_year`, packaged for single days)
fn oracle_of_day(n: i64) -> DayOracle {
  let t = terms();
  let (y, _, _) = cal().date(n);
  let ws_prev = t.get(y, 0).dn;
  let ws_this = t.get(y + 1, 0).dn;
  let summer = t.get(y, 12).dn;
  let autumn = t.get(y, 15).dn;
  let grain = t.get(y, 11).dn;
  let heat = t.get(y, 13).dn;
  let stem = |n: i64| day_pillar(n) % 10;
  let branch = |n: i64| day_pillar(n) % 12;
  let g3 = summer + (6 - stem(summer)).rem_euclid(10) + 20;
  let long_middle = g3 + 20 < autumn;
  let plum_start = grain + (2 - stem(grain)).rem_euclid(10);
  let plum_end = heat + (7 - branch(heat)).rem_euclid(12);
  let nine = {
    let w = if n >= ws_this { ws_this } else { ws_prev };
    let d = n - w;
    if d >= 0 && d < 81 {
      Some((d / 9, d % 9))
    } else {
      None
    }
  };
  let dog = {
    let d = n - g3;
    let mid = if long_middle { 20 } else { 10 };
    if d < 0 {
      None
    } else if d < 10 {
      Some((0, d))
    } else if d < 10 + mid {
      Some((1, d - 10))
    } else if d < 20 + mid {
      Some((2, d - 10 - mid))
    } else {
      None
    }
  };
  let plum = if n < plum_start || n > plum_end {
    None
  } else if n == plum_end {
    Some((1, 0))
  } else {
    Some((0, n - plum_start))
  };
  let gi = t.governing_day(n).unwrap();
  let g = t.v[gi];
  let d = n - g.dn;
  let idx = (d / 5).min(2);
  let pentad = (g.i * 3 + idx, d - 5 * idx);
  let jie = if g.i % 2 == 1 { g } else { t.v[gi - 1] };
  let k = (jie.i - 3).rem_euclid(24) / 2;
  (nine, dog, plum, pentad, commanding(k, n - jie.dn))
}

/// histories: a single-thread sequence of 6..16 look-ups (a drawn subset of the five series each) on days related
/// to the previous one: the same day, a few days / a month / half a year / a year away, the same month-day in a
/// year differing by a cycle or a power of two or ten
fn history(i: usize, cfg: &Cfg, log: &mut Log) {
  let c = cal();
  let mut rng = crate::util::Rng::new(crate::util::mix(cfg.seed, i as u64 ^ 0x1C15));
  let len = rng.range(6, 16);
  let (lo, hi) = (c.year_first(2), c.year_first(9999) - 1);
  let mut n = crate::history::start_day(&mut rng).clamp(lo, hi);
  let key = format!("seq{}_{}", i, cal::fmt_dn(n));
  let mut trace: Vec<String> = vec![];
  let r = guard(|| {
    let mut out: Vec<(String, String)> = vec![];
    let mut judged = 0u64;
    for step in 0..len {
      let want = oracle_of_day(n);
      let mask = rng.range(1, 31);
      trace.push(format!("{}/{:05b}", cal::fmt_dn(n), mask));
      let sd = sd_of_dn(n);
      let mut bad: Vec<String> = vec![];
      if mask & 1 != 0 {
        let ph = sd.get_phenology_day();
        let ph = (ph.get_phenology().get_index() as i64, ph.get_day_index() as i64);
        if ph != want.3 {
          bad.push(format!("pentad {:?} (expected {:?})", ph, want.3));
        }
      }
      if mask & 2 != 0 {
        let hh = sd.get_hide_heaven_stem_day();
        let hs = hh.get_hide_heaven_stem();
        let hh = (hs.get_heaven_stem().get_index() as i64, kind_code(hs.get_type()), hh.get_day_index() as i64);
        if hh != want.4 {
          bad.push(format!("commanding stem {:?} (expected {:?})", hh, want.4));
        }
      }
      if mask & 4 != 0 {
        let nd = sd.get_nine_day().map(|x| (x.get_nine().get_index() as i64, x.get_day_index() as i64));
        if nd != want.0 {
          bad.push(format!("nine {:?} (expected {:?})", nd, want.0));
        }
      }
      if mask & 8 != 0 {
        let dd = sd.get_dog_day().map(|x| (x.get_dog().get_index() as i64, x.get_day_index() as i64));
        if dd != want.1 {
          bad.push(format!("dog {:?} (expected {:?})", dd, want.1));
        }
      }
      if mask & 16 != 0 {
        let pr = sd.get_plum_rain_day().map(|x| (x.get_plum_rain().get_index() as i64, x.get_day_index() as i64));
        if pr != want.2 {
          bad.push(format!("plum rain {:?} (expected {:?})", pr, want.2));
        }
      }
      judged += (mask as u64).count_ones() as u64;
      if !bad.is_empty() {
        out.push((format!("step {} {}: {}", step, trace.join(" "), bad.join("; ")), "the series of that day".into()));
        break;
      }
      n = crate::history::related_day(&mut rng, n).clamp(lo, hi);
    }
    (out, judged)
  });
  log.ev(1);
  log.nt(1);
  match r {
    Ok((v, judged)) => {
      log.count("history.sequences", 1);
      log.count("history.answers_judged", judged);
      if let Some((o, e)) = v.into_iter().next() {
        log.violate(format!("C15/history/{}", key), "a sequence of series look-ups on related days on one thread", key.clone(), o, e);
      }
    }
    Err(msg) => log.violate(format!("C15/panic-history/{}", key), "a sequence of series look-ups on related days on one thread", format!("{} {}", key, trace.join(" ")), format!("panic: {}", msg), "no panic".into()),
  }
}

pub fn run(cfg: &Cfg) -> (Log, Meta) {
  crate::util::set_thread_cap(12);
  let mut log = Log::new();
  if let Err(e) = cal::self_test() {
    log.harness_error(&format!("oracle self-test failed: {}", e));
  }
  let t = terms();
  if !t.errors.is_empty() || !t.monotonic() {
    log.harness_error("term list unusable as an oracle (not constructible or not increasing; see C06)");
    log.ev(1);
    return (log, Meta { rule: "not run".into(), assumptions: vec![], exhaustive: false });
  }
  // allotments must cover a whole month and the table must be the classical one in total length
  for k in 0..12 {
    let a = allotment(k);
    if a.is_empty() || a.last().unwrap().1 != 99 || commanding(k, 0).1 != 0 || commanding(k, 31).1 != 2 {
      log.harness_error("allotment table self-test failed");
    }
  }
  let years: Vec<i64> = match cfg.tier {
    Tier::Thorough => (2..=9998).collect(),
    Tier::Quick => day_sample_years(cfg).into_iter().filter(|y| (2..=9998).contains(y)).collect(),
  };
  log.merge(par_range(years.len(), 1, |i, l| check_year(years[i], l)));
  // the packaged oracle agrees with itself on a known day: 2024-07-15 is the first day of the first Dog period
  if oracle_of_day(cal().dn(2024, 7, 15)).1 != Some((0, 0)) || oracle_of_day(cal().dn(2023, 12, 22)).0 != Some((0, 0)) {
    log.harness_error("single-day oracle self-test failed");
  }
  let nh = cfg.tier.pick(30_000usize, 600_000usize);
  log.merge(par_range(nh, 100, |i, l| history(i, cfg, l)));
  log.floor("history.answers_judged", cfg.tier.pick(400_000, 8_000_000));
  log.floor("day.nine_days", cfg.tier.pick(4_000, 80_000));
  log.floor("day.dog_days", cfg.tier.pick(1_500, 30_000));
  log.floor("day.plum_rain_days", cfg.tier.pick(1_000, 20_000));
  log.floor("year.twenty_day_middle_dog_period", cfg.tier.pick(20, 500));
  log.floor("year.ten_day_middle_dog_period", cfg.tier.pick(10, 200));
  let meta = Meta {
    rule: format!(
      "every civil date of {} years{}: Nine, Dog day, Plum rain, pentad and commanding stem (stem, kind, day index) read through the API and compared with an oracle that re-derives each series from the term days of the year and the pillar (N+49) mod 60; histories: {} seeded single-thread sequences of 6..16 look-ups (a drawn subset of the five series each) on days related to the previous one (same day, days / a month / half a year / a year away, same month-day in a year differing by a cycle, a power of two or ten or a digit). Non-trivial = days inside a Nine / Dog / Plum-rain period or opening a pentad or an allotment (counted); per-year edge configurations (20-day middle period, solstice on a Geng day, fifth Geng = start of autumn, Bing/Wei coincidences) are counted.",
      years.len(),
      match cfg.tier {
        Tier::Thorough => " (2..9998, exhaustive)",
        Tier::Quick => " (seed mod 20 plus the worst-case eras)",
      },
      nh
    ),
    assumptions: vec!["term days from the library (C05/C06); the allotment table is transcribed from the classical rule text, independently of the library's packed digit string".into()],
    exhaustive: cfg.tier == Tier::Thorough,
  };
  (log, meta)
}
