//! C18 — almanac lookup tables are total and well-formed for every pillar pair.
use crate::api::first_dn;
use crate::log::Log;
use crate::model::cal::day_pillar;
use crate::model::ganzhi::pillar_name;
use crate::model::lunar_seq::lunar_seq;
use crate::util::guard;
use crate::{Cfg, Meta};
use tyme4rs::tyme::culture::verif::{raw_day_gods, raw_day_taboo, raw_hour_taboo};
use tyme4rs::tyme::culture::{God, KitchenGodSteed, Taboo, GOD_NAMES, NUMBERS, TABOO_NAMES};
use tyme4rs::tyme::sixtycycle::SixtyCycle;
use tyme4rs::tyme::Culture;

fn hex_pairs(s: &str) -> Result<Vec<i64>, String> {
  if s.len() % 2 != 0 {
    return Err(format!("odd hex length {}", s.len()));
  }
  let b = s.as_bytes();
  let mut v = vec![];
  for i in (0..b.len()).step_by(2) {
    let h = |c: u8| -> Result<i64, String> {
      match c {
        b'0'..=b'9' => Ok((c - b'0') as i64),
        b'A'..=b'F' => Ok((c - b'A') as i64 + 10),
        b'a'..=b'f' => Ok((c - b'a') as i64 + 10),
        _ => Err(format!("non-hex byte {:?}", c as char)),
      }
    };
    v.push(h(b[i])? * 16 + h(b[i + 1])?);
  }
  Ok(v)
}

/// own parse of one DAY_GODS line -> gods[day pillar]
fn parse_gods_line(line: &str) -> Result<Vec<Vec<i64>>, String> {
  if !line.starts_with(';') {
    return Err("line does not start with ';'".into());
  }
  let mut out: Vec<Option<Vec<i64>>> = vec![None; 60];
  for rec in line.split(';') {
    if rec.is_empty() {
      continue;
    }
    let v = hex_pairs(rec)?;
    if v.is_empty() {
      return Err("empty record".into());
    }
    let day = v[0];
    if !(0..60).contains(&day) {
      return Err(format!("record for day index {}", day));
    }
    if out[day as usize].is_some() {
      return Err(format!("two records for day index {}", day));
    }
    out[day as usize] = Some(v[1..].to_vec());
  }
  let mut res = vec![];
  for (i, o) in out.into_iter().enumerate() {
    res.push(o.ok_or_else(|| format!("no record for day index {}", i))?);
  }
  Ok(res)
}

/// own parse of one taboo line -> (recommends, avoids)[pillar index]
fn parse_taboo_line(line: &str) -> Result<Vec<(Vec<i64>, Vec<i64>)>, String> {
  let mut recs: Vec<&str> = line.split(';').collect();
  if recs.len() == 61 && recs[60].is_empty() {
    recs.pop();
  }
  if recs.len() != 60 {
    return Err(format!("{} records", recs.len()));
  }
  let mut out = vec![];
  for (i, r) in recs.iter().enumerate() {
    let parts: Vec<&str> = r.split(',').collect();
    if parts.len() != 2 {
      return Err(format!("record {} has {} comma-separated parts", i, parts.len()));
    }
    out.push((hex_pairs(parts[0]).map_err(|e| format!("record {}: {}", i, e))?, hex_pairs(parts[1]).map_err(|e| format!("record {}: {}", i, e))?));
  }
  Ok(out)
}

fn names_ok(v: &[String], list: &[&str]) -> bool {
  v.iter().all(|n| list.contains(&n.as_str()))
}

fn god_idx(v: &[God]) -> Vec<i64> {
  v.iter().map(|g| g.get_index() as i64).collect()
}

fn taboo_idx(v: &[Taboo]) -> Vec<i64> {
  v.iter().map(|g| g.get_index() as i64).collect()
}

/// any pillar with the given branch (the tables are keyed by branch only)
fn pillar_with_branch(b: i64) -> SixtyCycle {
  SixtyCycle::from_index((0..60).find(|c| c % 12 == b).unwrap() as isize)
}

pub fn run(cfg: &Cfg) -> (Log, Meta) {
  let mut log = Log::new();
  // ---- raw tables, parsed independently
  let (rg, rt, rh) = (raw_day_gods(), raw_day_taboo(), raw_hour_taboo());
  let mut gods: Vec<Option<Vec<Vec<i64>>>> = vec![];
  let mut dtab: Vec<Option<Vec<(Vec<i64>, Vec<i64>)>>> = vec![];
  let mut htab: Vec<Option<Vec<(Vec<i64>, Vec<i64>)>>> = vec![];
  for i in 0..12 {
    log.ev(3);
    match parse_gods_line(rg[i]) {
      Ok(t) => {
        for (d, rec) in t.iter().enumerate() {
          for &g in rec {
            log.count("raw.god_entries", 1);
            if g >= 151 {
              log.violate(format!("C18/raw-day-gods/{:02}_{:02}", i, d), "DAY_GODS raw table", format!("line {} day {}", i, d), format!("index {}", g), "< 151".into());
            }
          }
        }
        gods.push(Some(t));
      }
      Err(e) => {
        log.violate(format!("C18/raw-day-gods/{:02}", i), "DAY_GODS raw table", format!("line {}", i), e, "';' + 60 records of 2-hex day index and 2-hex god indices".into());
        gods.push(None);
      }
    }
    for (name, raw, store, sig) in [("DAY_TABOO", rt[i], &mut dtab, "raw-day-taboo"), ("HOUR_TABOO", rh[i], &mut htab, "raw-hour-taboo")] {
      match parse_taboo_line(raw) {
        Ok(t) => {
          for (d, (a, b)) in t.iter().enumerate() {
            for &x in a.iter().chain(b.iter()) {
              log.count("raw.taboo_entries", 1);
              if x >= 141 {
                log.violate(format!("C18/{}/{:02}_{:02}", sig, i, d), name, format!("line {} record {}", i, d), format!("index {}", x), "< 141".into());
              }
            }
          }
          store.push(Some(t));
        }
        Err(e) => {
          log.violate(format!("C18/{}/{:02}", sig, i), name, format!("line {}", i), e, "60 records 'hex,hex'".into());
          store.push(None);
        }
      }
    }
  }
  // ---- day cells: 12 month branches x 60 day pillars
  for mb in 0..12i64 {
    let month = pillar_with_branch(mb);
    for d in 0..60i64 {
      let key = format!("{:02}_{}", mb, pillar_name(d));
      log.ev(1);
      log.nt(1);
      log.count("cells.month_branch_x_day_pillar", 1);
      let day = SixtyCycle::from_index(d as isize);
      let r = guard(|| {
        let g = God::get_day_gods(month.clone(), day.clone());
        let rec = Taboo::get_day_recommends(month.clone(), day.clone());
        let avo = Taboo::get_day_avoids(month.clone(), day.clone());
        (god_idx(&g), g.iter().map(|x| x.get_name()).collect::<Vec<_>>(), taboo_idx(&rec), rec.iter().map(|x| x.get_name()).collect::<Vec<_>>(), taboo_idx(&avo), avo.iter().map(|x| x.get_name()).collect::<Vec<_>>())
      });
      match r {
        Ok((g, gn, rec, rn, avo, an)) => {
          if g.is_empty() {
            log.violate(format!("C18/day-gods-empty/{}", key), "God::get_day_gods", key.clone(), "no spirit".into(), "at least one".into());
          }
          if !names_ok(&gn, &GOD_NAMES) || !names_ok(&rn, &TABOO_NAMES) || !names_ok(&an, &TABOO_NAMES) {
            log.violate(format!("C18/day-names/{}", key), "names", key.clone(), "a name outside its list".into(), "every name in its list".into());
          }
          if let Some(x) = rec.iter().find(|x| avo.contains(x)) {
            log.violate(format!("C18/day-recommend-and-avoid/{}", key), "Taboo day lists", key.clone(), format!("activity {} both recommended and avoided", TABOO_NAMES[*x as usize]), "disjoint".into());
          }
          // API == own decoding of the raw table
          if let Some(t) = &gods[((mb - 2).rem_euclid(12)) as usize] {
            if t[d as usize] != g {
              log.violate(format!("C18/day-gods-vs-raw/{}", key), "God::get_day_gods", key.clone(), format!("{:?}", g), format!("{:?}", t[d as usize]));
            }
          }
          if let Some(t) = &dtab[mb as usize] {
            if t[d as usize].0 != rec || t[d as usize].1 != avo {
              log.violate(format!("C18/day-taboo-vs-raw/{}", key), "Taboo day lists", key.clone(), format!("{:?} / {:?}", rec, avo), format!("{:?} / {:?}", t[d as usize].0, t[d as usize].1));
            }
          }
          log.count("cells.day_spirits_decoded", g.len() as u64);
          log.sample(|| format!("month branch {} day {}: {} spirits {:?}.., {} recommended, {} avoided", mb, pillar_name(d), g.len(), gn.iter().take(3).collect::<Vec<_>>(), rec.len(), avo.len()));
        }
        Err(msg) => log.violate(format!("C18/day-panic/{}", key), "day almanac tables", key.clone(), format!("panic: {}", msg), "decodes".into()),
      }
    }
  }
  // ---- hour cells: 60 day pillars x 12 hour branches
  for d in 0..60i64 {
    let day = SixtyCycle::from_index(d as isize);
    for hb in 0..12i64 {
      let key = format!("{}_{:02}", pillar_name(d), hb);
      log.ev(1);
      log.nt(1);
      log.count("cells.day_pillar_x_hour_branch", 1);
      let hour = pillar_with_branch(hb);
      let r = guard(|| {
        let rec = Taboo::get_hour_recommends(day.clone(), hour.clone());
        let avo = Taboo::get_hour_avoids(day.clone(), hour.clone());
        (taboo_idx(&rec), rec.iter().map(|x| x.get_name()).collect::<Vec<_>>(), taboo_idx(&avo), avo.iter().map(|x| x.get_name()).collect::<Vec<_>>())
      });
      match r {
        Ok((rec, rn, avo, an)) => {
          if !names_ok(&rn, &TABOO_NAMES) || !names_ok(&an, &TABOO_NAMES) {
            log.violate(format!("C18/hour-names/{}", key), "names", key.clone(), "a name outside its list".into(), "every name in its list".into());
          }
          if let Some(x) = rec.iter().find(|x| avo.contains(x)) {
            log.violate(format!("C18/hour-recommend-and-avoid/{}", key), "Taboo hour lists", key.clone(), format!("activity {} both recommended and avoided", TABOO_NAMES[*x as usize]), "disjoint".into());
          }
          if let Some(t) = &htab[hb as usize] {
            if t[d as usize].0 != rec || t[d as usize].1 != avo {
              log.violate(format!("C18/hour-taboo-vs-raw/{}", key), "Taboo hour lists", key.clone(), format!("{:?} / {:?}", rec, avo), format!("{:?} / {:?}", t[d as usize].0, t[d as usize].1));
            }
          }
        }
        Err(msg) => log.violate(format!("C18/hour-panic/{}", key), "hour almanac tables", key.clone(), format!("panic: {}", msg), "decodes".into()),
      }
    }
  }
  // ---- the same cells in drawn order on many threads at once: a cell's lists do not depend on which cell was
  // decoded just before on this thread, nor on what other threads are decoding at the same moment
  {
    let nq = cfg.tier.pick(400_000usize, 6_000_000usize);
    let (gods, dtab, htab) = (&gods, &dtab, &htab);
    log.merge(crate::util::par_range(nq, 64, |i, l| {
      let mut rng = crate::util::Rng::new(crate::util::mix(cfg.seed, (i / 8) as u64 ^ 0x1C18));
      // runs of 8 queries share a small neighbourhood of cells, so that the same and adjacent cells recur
      let base_d = rng.range(0, 59);
      let base_b = rng.range(0, 11);
      let mut r2 = crate::util::Rng::new(crate::util::mix(cfg.seed, i as u64 ^ 0x2C18));
      let d = (base_d + r2.range(0, 2) * *r2.pick(&[0i64, 1, 10, 12, 30])).rem_euclid(60);
      let b = (base_b + r2.range(0, 1) * r2.range(0, 11)).rem_euclid(12);
      let hour_table = r2.chance(1, 2);
      let order = r2.below(4);
      l.ev(1);
      l.count("concurrent.cell_queries", 1);
      let key = format!("{}_{:02}_{}", pillar_name(d), b, if hour_table { "hour" } else { "day" });
      let day = SixtyCycle::from_index(d as isize);
      let other = pillar_with_branch(b);
      let r = guard(|| {
        let rec = |x: bool| -> Vec<i64> {
          taboo_idx(&match (hour_table, x) {
            (true, true) => Taboo::get_hour_recommends(day.clone(), other.clone()),
            (true, false) => Taboo::get_hour_avoids(day.clone(), other.clone()),
            (false, true) => Taboo::get_day_recommends(other.clone(), day.clone()),
            (false, false) => Taboo::get_day_avoids(other.clone(), day.clone()),
          })
        };
        let (a, v) = match order {
          0 => {
            let a = rec(true);
            (Some(a), Some(rec(false)))
          }
          1 => {
            let v = rec(false);
            (Some(rec(true)), Some(v))
          }
          2 => (Some(rec(true)), None),
          _ => (None, Some(rec(false))),
        };
        let g = if !hour_table && r2.chance(1, 2) { Some(god_idx(&God::get_day_gods(other.clone(), day.clone()))) } else { None };
        (a, v, g)
      });
      match r {
        Ok((a, v, g)) => {
          let want = if hour_table { htab[b as usize].as_ref().map(|t| t[d as usize].clone()) } else { dtab[b as usize].as_ref().map(|t| t[d as usize].clone()) };
          if let Some((wa, wv)) = want {
            if a.as_ref().map(|x| *x != wa).unwrap_or(false) || v.as_ref().map(|x| *x != wv).unwrap_or(false) {
              l.violate(format!("C18/concurrent-taboo-vs-raw/{}", key), "Taboo lists while other cells are decoded", key.clone(), format!("{:?} / {:?}", a, v), format!("{:?} / {:?}", wa, wv));
            }
          }
          if let (Some(a), Some(v)) = (&a, &v) {
            if let Some(x) = a.iter().find(|x| v.contains(x)) {
              l.violate(format!("C18/concurrent-recommend-and-avoid/{}", key), "Taboo lists while other cells are decoded", key.clone(), format!("activity {} both recommended and avoided", x), "disjoint".into());
            }
          }
          if let (Some(g), Some(t)) = (g, &gods[((b - 2).rem_euclid(12)) as usize]) {
            if t[d as usize] != g {
              l.violate(format!("C18/concurrent-gods-vs-raw/{}", key), "God::get_day_gods while other cells are decoded", key.clone(), format!("{:?}", g), format!("{:?}", t[d as usize]));
            }
          }
        }
        Err(msg) => l.violate(format!("C18/concurrent-panic/{}", key), "almanac tables while other cells are decoded", key.clone(), format!("panic: {}", msg), "decodes".into()),
      }
    }));
    log.count("concurrent.threads", crate::util::threads() as u64);
  }
  // ---- the getters on days and hours hand the right pillars to the tables: at seeded instants (a quarter of
  // them at 23:xx, where the hour belongs to the next day's pillar) the lists of LunarHour / SixtyCycleHour /
  // LunarDay / SixtyCycleDay equal the table cell of the pillars the harness derives itself
  {
    use crate::api::{sd_of_dn, st_of_abs};
    use crate::model::cal::{self, cal};
    let nw = cfg.tier.pick(6_000usize, 100_000usize);
    let t = crate::model::terms::terms();
    if t.errors.is_empty() && t.monotonic() {
      log.merge(crate::util::par_range(nw, 50, |i, l| {
        let mut rng = crate::util::Rng::new(crate::util::mix(cfg.seed, i as u64 ^ 0x3C18));
        let c = cal();
        let n = rng.range(c.dn(30, 1, 1), c.dn(9990, 1, 1));
        if cal::reform_era_near(n) {
          return;
        }
        let sod = if i % 4 == 0 { rng.range(23 * 3600, 86399) } else { rng.range(0, 86399) };
        let a = n * 86400 + sod;
        if crate::model::pillars::window_has_jie(a - 2, a + 2) {
          return;
        }
        let p = match crate::model::pillars::four_pillars(a, false) {
          Some(p) => p,
          None => return,
        };
        // day-level month pillar: the term governing the civil day
        let g = match t.governing_day(n) {
          Some(g) => t.v[g],
          None => return,
        };
        let (_, _, _, day_mp) = crate::monitor::c08::pillars_of(&g);
        let dp = cal::day_pillar(n);
        let key = crate::api::fmt_abs(a);
        l.ev(1);
        l.count("wrappers.instants", 1);
        if sod >= 23 * 3600 {
          l.count("wrappers.late_zi_instants", 1);
        }
        let r = guard(|| {
          let st = st_of_abs(a);
          let lh = st.get_lunar_hour();
          let sh = st.get_sixty_cycle_hour();
          let (dayp, hourp) = (SixtyCycle::from_index(p[2] as isize), SixtyCycle::from_index(p[3] as isize));
          let want_h = (taboo_idx(&Taboo::get_hour_recommends(dayp.clone(), hourp.clone())), taboo_idx(&Taboo::get_hour_avoids(dayp, hourp)));
          let got_lh = (taboo_idx(&lh.get_recommends()), taboo_idx(&lh.get_avoids()));
          let got_sh = (taboo_idx(&sh.get_recommends()), taboo_idx(&sh.get_avoids()));
          let sd = sd_of_dn(n);
          let (ld, scd) = (sd.get_lunar_day(), sd.get_sixty_cycle_day());
          let (monthp, dayp0) = (SixtyCycle::from_index(day_mp as isize), SixtyCycle::from_index(dp as isize));
          let want_d = (god_idx(&God::get_day_gods(monthp.clone(), dayp0.clone())), taboo_idx(&Taboo::get_day_recommends(monthp.clone(), dayp0.clone())), taboo_idx(&Taboo::get_day_avoids(monthp, dayp0)));
          let got_ld = (god_idx(&ld.get_gods()), taboo_idx(&ld.get_recommends()), taboo_idx(&ld.get_avoids()));
          let got_scd = (god_idx(&scd.get_gods()), taboo_idx(&scd.get_recommends()), taboo_idx(&scd.get_avoids()));
          (want_h, got_lh, got_sh, want_d, got_ld, got_scd)
        });
        match r {
          Ok((want_h, got_lh, got_sh, want_d, got_ld, got_scd)) => {
            if got_lh != want_h || got_sh != want_h {
              l.violate(format!("C18/hour-wrapper/{}", key), "LunarHour / SixtyCycleHour get_recommends / get_avoids", key.clone(), format!("lunar hour {:?} / sexagenary hour {:?}", got_lh, got_sh), format!("{:?} (cell of day pillar {} x hour pillar {})", want_h, pillar_name(p[2]), pillar_name(p[3])));
            }
            if let Some(x) = got_lh.0.iter().find(|x| got_lh.1.contains(x)) {
              l.violate(format!("C18/hour-wrapper-recommend-and-avoid/{}", key), "LunarHour lists", key.clone(), format!("activity {} both recommended and avoided", x), "disjoint".into());
            }
            if got_ld != want_d || got_scd != want_d {
              l.violate(format!("C18/day-wrapper/{}", key), "LunarDay / SixtyCycleDay get_gods / get_recommends / get_avoids", key.clone(), format!("lunar day {:?} / sexagenary day {:?}", got_ld, got_scd), format!("{:?} (cell of month pillar {} x day pillar {})", want_d, pillar_name(day_mp), pillar_name(dp)));
            }
          }
          Err(msg) => l.violate(format!("C18/wrapper-panic/{}", key), "almanac getters on days and hours", key.clone(), format!("panic: {}", msg), "lists".into()),
        }
      }));
      log.floor("wrappers.instants", cfg.tier.pick(4_000, 80_000));
      log.floor("wrappers.late_zi_instants", cfg.tier.pick(1_000, 20_000));
    } else {
      log.harness_error("term list unusable as an oracle (see C06)");
    }
  }
  // ---- spirits: luck class = list split at 60
  for i in 0..151i64 {
    log.ev(1);
    log.count("spirits.classified", 1);
    match guard(|| {
      let g = God::from_index(i as isize);
      (g.get_luck().get_index() as i64, g.get_luck().get_name(), g.get_name())
    }) {
      Ok((l, ln, name)) => {
        let want = if i < 60 { 0 } else { 1 };
        if l != want || ln != ["吉", "凶"][want as usize] || name != GOD_NAMES[i as usize] {
          log.violate(format!("C18/god-luck/{:03}", i), "God::get_luck", format!("{} {}", i, name), format!("{} {}", l, ln), format!("{}", ["吉", "凶"][want as usize]));
        }
      }
      Err(msg) => log.violate(format!("C18/god-luck/{:03}", i), "God::get_luck", format!("{}", i), format!("panic: {}", msg), "a class".into()),
    }
  }
  // ---- kitchen-god attributes of every year -1..9999
  let seq = lunar_seq();
  let num = |k: i64| NUMBERS[k as usize];
  for y in -1..=9999i64 {
    log.ev(1);
    log.count("kitchen.years", 1);
    let key = if y < 0 { format!("-{:04}", -y) } else { format!("{:04}", y) };
    let r = guard(|| {
      let k = KitchenGodSteed::from_lunar_year(y as isize);
      vec![k.get_mouse(), k.get_grass(), k.get_cattle(), k.get_flower(), k.get_dragon(), k.get_horse(), k.get_chicken(), k.get_silkworm(), k.get_pig(), k.get_field(), k.get_cake(), k.get_gold(), k.get_people_cakes(), k.get_people_hoes()]
    });
    match r {
      Ok(got) => {
        if y < 0 {
          continue; // no oracle for the New-Year day of year -1
        }
        let m1 = seq.year_slice(y)[0];
        let p = day_pillar(m1.first);
        let (s, b) = (p % 10, p % 12);
        let bs = |t: i64| num((t - b).rem_euclid(12));
        let ss = |t: i64| num((t - s).rem_euclid(10));
        let want = vec![
          format!("{}鼠偷粮", bs(0)),
          format!("草子{}分", bs(0)),
          format!("{}牛耕田", bs(1)),
          format!("花收{}分", bs(3)),
          format!("{}龙治水", bs(4)),
          format!("{}马驮谷", bs(6)),
          format!("{}鸡抢米", bs(9)),
          format!("{}姑看蚕", bs(9)),
          format!("{}屠共猪", bs(11)),
          format!("甲田{}分", ss(0)),
          format!("{}人分饼", ss(2)),
          format!("{}日得金", ss(7)),
          format!("{}人{}丙", bs(2), ss(2)),
          format!("{}人{}锄", bs(2), ss(3)),
        ];
        if got != want {
          log.violate(format!("C18/kitchen-god/{}", key), "KitchenGodSteed", format!("lunar year {} (New Year day {} {})", y, m1.first, pillar_name(p)), format!("{:?}", got), format!("{:?}", want));
        }
        if y % 1000 == 24 {
          log.sample(|| format!("lunar year {}: New-Year day pillar {} -> {} {}", y, pillar_name(p), want[4], want[9]));
        }
      }
      Err(msg) => log.violate(format!("C18/kitchen-god/{}", key), "KitchenGodSteed", format!("lunar year {}", y), format!("panic: {}", msg), "attributes in 1..12".into()),
    }
  }
  let _ = first_dn;
  log.floor("concurrent.cell_queries", cfg.tier.pick(400_000, 6_000_000));
  log.floor("concurrent.threads", 2);
  log.floor("cells.month_branch_x_day_pillar", 720);
  log.floor("cells.day_pillar_x_hour_branch", 720);
  log.floor("spirits.classified", 151);
  log.floor("kitchen.years", 10_001);
  log.floor("raw.god_entries", 3_000);
  log.floor("raw.taboo_entries", 10_000);
  let meta = Meta {
    rule: "finite domain enumerated completely: 12 x 60 (month branch, day pillar) cells (spirits, recommended, avoided: decode, >= 1 spirit, names in their lists, recommended and avoided disjoint, API == independent parse of the raw DAY_GODS / DAY_TABOO tables read through the guarded hook), 60 x 12 (day pillar, hour branch) cells likewise against HOUR_TABOO, raw tables well-formed (60 records per line, one record per day index, even hex length, spirit index < 151, activity index < 141), 151 spirits classed by the list split at 60, then the cells again in drawn order on all worker threads at once (runs of 8 queries around one cell: same / adjacent / +10 / +12 / +30 pillars, day and hour tables mixed, recommended-first, avoided-first or only one list) against the same independent parse; the getters of LunarHour / SixtyCycleHour / LunarDay / SixtyCycleDay at seeded instants (a quarter at 23:xx) return the cell of the pillars the harness derives itself (day pillar (N+49) mod 60 rolled at 23:00, Five-Rats hour pillar, month pillar of the governing Jie); kitchen-god attributes of every lunar year -1..9999 equal to the step counts from the New-Year day's stem/branch recomputed from the day number. Non-trivial = every table cell.".into(),
    assumptions: vec!["New-Year day of a lunar year = first day of month 1 as reported by the library (C03/C05); pillar by (N+49) mod 60".into()],
    exhaustive: true,
  };
  (log, meta)
}
