//! C12 — clock arithmetic to the second and Julian-date<->clock conversion are exact.
use crate::api::*;
use crate::log::Log;
use crate::model::cal::{self, cal, FIRST, LAST};
use crate::util::{guard, mix, par_range, Rng};
use crate::{Cfg, Meta, Tier};
use tyme4rs::tyme::jd::JulianDay;
use tyme4rs::tyme::Tyme;

const LO: i64 = FIRST * 86400;
const HI: i64 = LAST * 86400 + 86399;

fn boundary_instants() -> Vec<i64> {
  let c = cal();
  let mut v = vec![LO, LO + 1, HI, HI - 1];
  for (y, m, d) in [(1582, 10, 4), (1582, 10, 15), (1582, 12, 31), (2000, 2, 29), (1900, 2, 28), (1900, 12, 31), (1600, 2, 29), (1500, 2, 29), (4, 2, 29), (9999, 1, 1), (1, 12, 31), (2023, 1, 31), (1970, 1, 1)] {
    let n = c.dn(y, m, d);
    for s in [0, 1, 59, 60, 3599, 3600, 43199, 43200, 82799, 82800, 86339, 86340, 86398, 86399] {
      v.push(n * 86400 + s);
    }
  }
  v
}

fn arithmetic_block(b: usize, per_block: usize, cfg: &Cfg, bounds: &[i64], log: &mut Log) {
  let mut rng = Rng::new(mix(cfg.seed, b as u64 ^ 0xC12));
  for it in 0..per_block {
    let a = match it % 4 {
      0 => (*rng.pick(bounds) + rng.range(-100_000, 100_000)).clamp(LO, HI),
      _ => rng.range(LO, HI),
    };
    let n = match it % 7 {
      0 => rng.range(-100, 100),
      1 => rng.range(-100_000, 100_000),
      2 => rng.range(-1_000_000_000, 1_000_000_000),
      3 => *rng.pick(&[0i64, 1, -1, 59, 60, 61, -59, -60, -61, 3599, 3600, 3601, -3600, 86399, 86400, 86401, -86400, -86401, 31_536_000, -31_536_000]),
      4 => rng.range(-40_000_000, 40_000_000),
      5 => -(a.rem_euclid(86400)) - rng.range(0, 1), // to midnight or the second before
      _ => 86400 - a.rem_euclid(86400) - rng.range(0, 1),
    };
    let t = a + n;
    if t < LO || t > HI {
      continue;
    }
    log.ev(1);
    log.nt_distinct(mix(a as u64, n as u64));
    if a.div_euclid(86400) != t.div_euclid(86400) {
      log.count("clock.day_crossings", 1);
    }
    let (ya, _, _) = cal().date(a.div_euclid(86400));
    let (yt, _, _) = cal().date(t.div_euclid(86400));
    if ya != yt {
      log.count("clock.year_crossings", 1);
    }
    let gap = cal().dn(1582, 10, 15) * 86400;
    if (a < gap) != (t < gap) {
      log.count("clock.crossings_of_the_1582_gap", 1);
    }
    let key = || format!("{}_plus_{}", fmt_abs(a), n);
    let r = guard(|| {
      let mut out: Vec<(&'static str, String, String)> = vec![];
      let st = st_of_abs(a);
      let x = st.next(n as isize);
      match abs_sec_of(&x) {
        Some(g) if g == t => {}
        other => out.push(("next", format!("{:?} ({})", other, x), format!("{} ({})", t, fmt_abs(t)))),
      }
      let tt = st_of_abs(t);
      let diff = tt.subtract(st) as i64;
      if diff != n {
        out.push(("subtract", format!("{}", diff), format!("{}", n)));
      }
      let back = st.subtract(tt) as i64;
      if back != -n {
        out.push(("subtract-reverse", format!("{}", back), format!("{}", -n)));
      }
      let (b1, a1, b2, a2) = (tt.is_before(st), tt.is_after(st), st.is_before(tt), st.is_after(tt));
      if b1 != (n < 0) || a1 != (n > 0) || b2 != (n > 0) || a2 != (n < 0) {
        out.push(("order", format!("{} {} {} {}", b1, a1, b2, a2), format!("{} {} {} {}", n < 0, n > 0, n > 0, n < 0)));
      }
      // Julian date round trip
      let rt = st.get_julian_day().get_solar_time();
      if abs_sec_of(&rt) != Some(a) {
        out.push(("jd-roundtrip", format!("{}", rt), fmt_abs(a)));
      }
      // from_ymd_hms against N - 0.5 + fraction
      let jd = st.get_julian_day().get_day();
      let want = a.div_euclid(86400) as f64 - 0.5 + a.rem_euclid(86400) as f64 / 86400.0;
      if (jd - want).abs() > 1e-8 {
        out.push(("jd-value", format!("{}", jd), format!("{}", want)));
      }
      out
    });
    match r {
      Ok(v) => {
        for (mon, o, e) in v {
          log.violate(format!("C12/{}/{}", mon, key()), mon, key(), o, e);
        }
      }
      Err(msg) => log.violate(format!("C12/panic/{}", key()), "clock arithmetic", key(), format!("panic: {}", msg), "no panic".into()),
    }
    log.sample(|| format!("{} + {} s = {}", fmt_abs(a), n, fmt_abs(t)));
  }
}

const FRACS: [f64; 15] = [-0.6, -0.5, -0.49, -0.1, 0.0, 0.1, 0.4, 0.49, 0.499, 0.5, 0.501, 0.6, 0.7, 0.9, 0.99];

fn scan_jd(n: i64, sod: i64, log: &mut Log, what: &'static str) {
  for &fr in FRACS.iter() {
    let exact = (n * 86400 + sod) as f64 + fr;
    if exact + 0.5 >= (HI + 1) as f64 || exact - 0.5 < LO as f64 {
      continue; // the rounded instant may lie outside 0001..9999
    }
    let jd = n as f64 - 0.5 + (sod as f64 + fr) / 86400.0;
    log.ev(1);
    log.count(what, 1);
    let key = || format!("{}{:+.3}", fmt_abs(n * 86400 + sod), fr);
    let r = guard(|| {
      let t = JulianDay::from_julian_day(jd).get_solar_time();
      (abs_sec_of(&t), t)
    });
    match r {
      Ok((Some(g), _)) => {
        let err = (g as f64 - exact).abs();
        if err > 0.5 + 2e-4 {
          log.violate(format!("C12/jd-to-clock/{}", key()), "JulianDay::get_solar_time", format!("jd {:.9}", jd), format!("{} ({:.4} s away)", fmt_abs(g), err), "within 0.5 s".into());
        }
      }
      Ok((None, t)) => log.violate(format!("C12/jd-to-clock/{}", key()), "JulianDay::get_solar_time", format!("jd {:.9}", jd), format!("invalid instant {}", t), "a valid instant".into()),
      Err(msg) => log.violate(format!("C12/jd-to-clock/{}", key()), "JulianDay::get_solar_time", format!("jd {:.9}", jd), format!("panic: {}", msg), "a valid instant within 0.5 s".into()),
    }
  }
}

/// carry boundaries on the last day of month index mi (0-based from 0001-01)
fn scan_month_end(mi: usize, cfg: &Cfg, log: &mut Log) {
  let c = cal();
  let next_first = if mi + 1 < c.month_first.len() { c.month_first[mi + 1] } else { LAST + 1 };
  let last = next_first - 1;
  log.nt(1);
  let mut rng = Rng::new(mix(cfg.seed, mi as u64 ^ 0x2C12));
  let hh = rng.range(0, 22);
  for sod in [86399, hh * 3600 + 3599, 43200, rng.range(0, 1439) * 60 + 59] {
    scan_jd(last, sod, log, "jd.month_end_probes");
  }
  // the first day of the month and a random inner day get the carry times as well
  scan_jd(c.month_first[mi], 86399, log, "jd.other_day_probes");
  let inner = rng.range(c.month_first[mi], last);
  scan_jd(inner, 86399, log, "jd.other_day_probes");
  for d in c.month_first[mi]..=last {
    scan_jd(d, 86399, log, "jd.every_day_midnight_carry");
    if cfg.tier == Tier::Thorough {
      scan_jd(d, rng.range(0, 23) * 3600 + 3599, log, "jd.every_day_random_hour_carry");
      scan_jd(d, rng.range(0, 1439) * 60 + 59, log, "jd.every_day_random_minute_carry");
    }
  }
}

/// one history operation at instant a: arithmetic towards a related instant, or a Julian-date conversion
fn history_op(a: i64, rng: &mut Rng) -> (String, Vec<String>, u64) {
  let mut bad = vec![];
  let st = st_of_abs(a);
  match rng.below(6) {
    0 | 1 => {
      let t = crate::history::related_instant(rng, a).clamp(LO, HI);
      let label = format!("next({}, {:+})", fmt_abs(a), t - a);
      let got = abs_sec_of(&st.next((t - a) as isize));
      if got != Some(t) {
        bad.push(format!("{:?}, expected {}", got.map(fmt_abs), fmt_abs(t)));
      }
      (label, bad, 1)
    }
    2 | 3 => {
      let t = crate::history::related_instant(rng, a).clamp(LO, HI);
      let label = format!("subtract({}, {})", fmt_abs(t), fmt_abs(a));
      let tt = st_of_abs(t);
      let n = t - a;
      let got = (tt.subtract(st) as i64, st.subtract(tt) as i64, tt.is_before(st), tt.is_after(st));
      if got != (n, -n, n < 0, n > 0) {
        bad.push(format!("{:?}, expected {:?}", got, (n, -n, n < 0, n > 0)));
      }
      (label, bad, 1)
    }
    4 => {
      let label = format!("jd-roundtrip({})", fmt_abs(a));
      let jd = st.get_julian_day();
      let want = a.div_euclid(86400) as f64 - 0.5 + a.rem_euclid(86400) as f64 / 86400.0;
      let got = abs_sec_of(&jd.get_solar_time());
      if got != Some(a) || (jd.get_day() - want).abs() > 1e-8 {
        bad.push(format!("Julian date {} back {:?}, expected {} back {}", jd.get_day(), got.map(fmt_abs), want, fmt_abs(a)));
      }
      (label, bad, 1)
    }
    _ => {
      // a fractional Julian date up to 0.45 s before / after the second, and the day it belongs to
      let off = *rng.pick(&[-0.45f64, -0.2, 0.0, 0.2, 0.45]);
      let label = format!("from-jd({}{:+}s)", fmt_abs(a), off);
      let jd = a.div_euclid(86400) as f64 - 0.5 + (a.rem_euclid(86400) as f64 + off) / 86400.0;
      let j = tyme4rs::tyme::jd::JulianDay::from_julian_day(jd);
      let got = (abs_sec_of(&j.get_solar_time()), dn_of(&j.get_solar_day()));
      if got != (Some(a), Some(a.div_euclid(86400))) {
        bad.push(format!("instant {:?} on day {:?}, expected {}", got.0.map(fmt_abs), got.1.map(cal::fmt_dn), fmt_abs(a)));
      }
      (label, bad, 1)
    }
  }
}

pub fn run(cfg: &Cfg) -> (Log, Meta) {
  let mut log = Log::new();
  if let Err(e) = cal::self_test() {
    log.harness_error(&format!("oracle self-test failed: {}", e));
  }
  let bounds = boundary_instants();
  let total = cfg.tier.pick(1_000_000usize, 100_000_000usize);
  let per_block = 5_000;
  let blocks = total / per_block;
  log.merge(par_range(blocks, 1, |b, l| arithmetic_block(b, per_block, cfg, &bounds, l)));
  log.merge(par_range(cal().month_first.len(), 64, |mi, l| scan_month_end(mi, cfg, l)));
  let nh = cfg.tier.pick(40_000usize, 4_000_000usize);
  log.merge(par_range(nh, 200, |i, l| crate::history::instant_walk("C12", "a sequence of clock operations at related instants on one thread", i, cfg.seed, LO + 2, HI - 2, l, history_op)));
  log.floor("history.answers_judged", cfg.tier.pick(350_000, 7_000_000));
  log.floor("clock.day_crossings", cfg.tier.pick(50_000, 1_000_000));
  log.floor("clock.year_crossings", cfg.tier.pick(10_000, 500_000));
  log.floor("clock.crossings_of_the_1582_gap", cfg.tier.pick(1_000, 50_000));
  log.floor("jd.month_end_probes", 500_000);
  log.floor("jd.every_day_midnight_carry", 5_000_000);
  let meta = Meta {
    rule: format!(
      "{} seeded (instant, offset) pairs: instants uniform over 0001..9999 (3/4) or within +-100,000 s of {} boundary instants (1/4: range ends, 1582-10-04/15, leap days, month/year ends at carry seconds); offsets from +-100 s up to +-1e9 s, exact unit multiples, and to the next/previous midnight; each pair checks next, subtract both ways, the four order predicates, the Julian-date round trip and the Julian-date value. Carry scan (exhaustive in both tiers): for each of the 119,988 month ends the times 23:59:59, hh:59:59, 12:00:00 and a random mm:59, plus 23:59:59 on the month's first and a random inner day{}, and 23:59:59 on every civil day, each x 15 fractional offsets -0.6..+0.99 s through JulianDay::get_solar_time (valid instant within 0.5 s + 2e-4 s float slack). Histories: {} seeded single-thread sequences of 6..16 operations (next, subtract both ways with order, Julian-date round trip, a fractional Julian date within 0.45 s of the second) at related instants (same instant, +-1 s, +-2 h, day edges, +-1 day, the same clock time on a related day) - {}. distinct_nontrivial = distinct (instant, offset) pairs plus month ends.",
      blocks * per_block,
      bounds.len(),
      if cfg.tier == Tier::Thorough { " and a random hh:59:59 and hh:mm:59 on every civil day" } else { "" },
      nh,
      crate::history::WALK_TEXT
    ),
    assumptions: vec!["absolute second = harness day number * 86400 + second of day".into(), "Julian dates whose rounded instant would fall outside 0001-01-01..9999-12-31 are not asked".into()],
    exhaustive: false,
  };
  (log, meta)
}
