//! C02 — solar<->lunar conversion is an order-preserving bijection.
use crate::api::*;
use crate::log::Log;
use crate::model::cal::{self, cal, BASE, FIRST, LAST, TOTAL_DAYS};
use crate::model::lunar_seq::{lunar_seq, LM};
use crate::util::{guard, mix, par_range, Rng};
use crate::{Cfg, Meta, Tier};
use tyme4rs::tyme::lunar::{LunarDay, LunarHour, LunarMonth};

const CHUNK: usize = 2048;

/// civil side: conversion, round trip and successor relation for a block of consecutive days
fn solar_block(b: usize, log: &mut Log) {
  let lo = BASE + (b * CHUNK) as i64;
  let hi = (lo + CHUNK as i64 - 1).min(LAST);
  // image of the day before the block, so that block borders are covered as well
  let mut prev: Option<(Lymd, i64)> = None;
  if lo > FIRST {
    if let Ok(p) = guard(|| {
      let l = sd_of_dn(lo - 1).get_lunar_day();
      (lymd(&l), l.get_lunar_month().get_day_count() as i64)
    }) {
      prev = Some(p);
    }
  }
  for n in lo..=hi {
    let key = cal::fmt_dn(n);
    log.ev(1);
    let r = guard(|| {
      let sd = sd_of_dn(n);
      let l = sd.get_lunar_day();
      let back = ymd(&l.get_solar_day());
      (lymd(&l), l.get_lunar_month().get_day_count() as i64, back)
    });
    match r {
      Err(msg) => {
        log.violate(format!("C02/solar-to-lunar/{}", key), "SolarDay::get_lunar_day", key.clone(), format!("panic: {}", msg), "a lunar date".into());
        prev = None;
      }
      Ok((l, dc, back)) => {
        if back != cal().date(n) {
          log.violate(format!("C02/solar-roundtrip/{}", key), "get_lunar_day().get_solar_day()", key.clone(), format!("lunar {} -> {}", fmt_lymd(l), fmt_ymd(back)), key.clone());
        }
        if l.1 < 0 {
          log.count("solar.leap_month_days_converted", 1);
          log.nt(1);
        }
        if l.2 == 1 {
          log.count("solar.month_boundary_transitions", 1);
          log.nt(1);
          if l.1 == 1 {
            log.count("solar.year_boundary_transitions", 1);
          }
        }
        if l.2 < 1 || l.2 > dc {
          log.violate(format!("C02/lunar-day-range/{}", key), "get_lunar_day", key.clone(), format!("day {} of a {}-day month", l.2, dc), "1..=day_count".into());
        }
        if let Some((p, pdc)) = prev {
          let same_month = l.0 == p.0 && l.1 == p.1;
          let ok = (same_month && l.2 == p.2 + 1) || (!same_month && l.2 == 1 && p.2 == pdc);
          if !ok {
            log.violate(
              format!("C02/successor/{}", key),
              "consecutive civil days",
              key.clone(),
              format!("{} ({} days in month) then {}", fmt_lymd(p), pdc, fmt_lymd(l)),
              "day+1 in the same month, or day 1 of another month after the last day".into(),
            );
          }
        }
        prev = Some((l, dc));
        log.sample(|| format!("civil {} -> lunar {} -> civil {}", key, fmt_lymd(l), fmt_ymd(back)));
      }
    }
  }
}

fn refused(f: impl FnOnce() -> bool) -> bool {
  match guard(f) {
    Ok(accepted) => !accepted,
    Err(_) => true,
  }
}

/// lunar side for one lunar year: acceptance model + round trip
fn lunar_year(y: i64, log: &mut Log) {
  let seq = lunar_seq();
  let slice = seq.year_slice(y);
  for lm in slice {
    let mkey = fmt_lym(lm.y, lm.m);
    for d in 1..=lm.days.clamp(0, 31) {
      log.ev(1);
      let want = (lm.y, lm.m, d);
      let civil = lm.first + d - 1;
      if !cal().in_range(civil) {
        // lunar dates whose civil day is outside 0001-01-01..9999-12-31 cannot be converted
        log.count("lunar.days_outside_civil_range", 1);
        continue;
      }
      let r = guard(|| {
        let l = LunarDay::new(lm.y as isize, lm.m as isize, d as usize)?;
        let s = l.get_solar_day();
        let back = s.get_lunar_day();
        Ok::<_, String>((ymd(&s), lymd(&back)))
      });
      match r {
        Err(msg) => log.violate(format!("C02/lunar-roundtrip/{}", fmt_lymd(want)), "LunarDay::new", fmt_lymd(want), format!("panic: {}", msg), "accepted and converted".into()),
        Ok(Err(e)) => log.violate(format!("C02/lunar-accept/{}", fmt_lymd(want)), "LunarDay::new", fmt_lymd(want), format!("refused: {}", e), "accepted".into()),
        Ok(Ok((s, back))) => {
          if back != want {
            log.violate(format!("C02/lunar-roundtrip/{}", fmt_lymd(want)), "get_solar_day().get_lunar_day()", fmt_lymd(want), format!("civil {} -> lunar {}", fmt_ymd(s), fmt_lymd(back)), fmt_lymd(want));
          }
          if s != cal().date(civil) {
            log.violate(format!("C02/lunar-to-solar/{}", fmt_lymd(want)), "get_solar_day", fmt_lymd(want), fmt_ymd(s), format!("{} (first day {} + {})", cal::fmt_dn(civil), lm.first, d - 1));
          }
        }
      }
      log.count("lunar.days_round_tripped", 1);
      if lm.m < 0 {
        log.nt(1);
      }
    }
    // refusals around this month
    for &d in &[0i64, lm.days + 1, 31] {
      log.ev(1);
      log.nt(1);
      if !refused(|| LunarDay::new(lm.y as isize, lm.m as isize, d as usize).is_ok()) {
        log.violate(format!("C02/lunar-refuse/{}-{:02}", mkey, d), "LunarDay::new", format!("{} day {}", mkey, d), "accepted".into(), format!("refused (month has {} days)", lm.days));
      }
      log.count("lunar.refusals_checked", 1);
    }
  }
  // month-level refusals for the year
  let leap = seq.leap[y as usize];
  let mut bad: Vec<i64> = vec![0, 13, -13, 14, -14];
  for m in 1..=12i64 {
    if m != leap {
      bad.push(-m);
    }
  }
  for m in bad {
    log.ev(1);
    log.nt(1);
    if !refused(|| LunarDay::new(y as isize, m as isize, 1).is_ok()) {
      log.violate(format!("C02/lunar-refuse/{}-01", fmt_lym(y, m)), "LunarDay::new", format!("({}, {}, 1)", y, m), "accepted".into(), format!("refused (leap month of the year is {})", leap));
    }
    if !refused(|| LunarMonth::new(y as isize, m as isize).is_ok()) {
      log.violate(format!("C02/lunar-refuse-month/{}", fmt_lym(y, m)), "LunarMonth::new", format!("({}, {})", y, m), "accepted".into(), "refused".into());
    }
    log.count("lunar.refusals_checked", 2);
  }
}

fn chrono(lm: &LM, d: i64) -> i64 {
  lm.first + d - 1
}

/// ordering clause around month boundary i (months i-2..i+2), all pairs with leap twins
fn order_at(i: usize, cfg: &Cfg, log: &mut Log) {
  let seq = lunar_seq();
  let n = seq.months.len();
  let a = seq.months[i];
  let mut rng = Rng::new(mix(cfg.seed, i as u64 ^ 0x0C02));
  let mut pairs: Vec<((LM, i64), (LM, i64))> = vec![];
  if i + 1 < n {
    let b = seq.months[i + 1];
    pairs.push(((a, a.days), (b, 1)));
    pairs.push(((a, rng.range(1, a.days.max(1))), (b, rng.range(1, b.days.max(1)))));
  }
  if i + 2 < n {
    let c = seq.months[i + 2];
    pairs.push(((a, rng.range(1, a.days.max(1))), (c, rng.range(1, c.days.max(1)))));
  }
  // same month, different days
  pairs.push(((a, 1), (a, a.days)));
  let d0 = rng.range(1, a.days.max(1));
  pairs.push(((a, d0), (a, d0)));
  // leap twin: {regular m, leap m, m+1} x sampled days, all nine ordered pairs
  let is_twin = a.m < 0;
  if is_twin && i >= 1 && i + 1 < n {
    let trio = [seq.months[i - 1], a, seq.months[i + 1]];
    for x in trio.iter() {
      for y in trio.iter() {
        let dx = rng.range(1, x.days.max(1));
        let dy = rng.range(1, y.days.max(1));
        pairs.push(((*x, dx), (*y, dy)));
        pairs.push(((*x, 1), (*y, 1)));
        pairs.push(((*x, x.days.min(29)), (*y, y.days.min(29))));
        log.count("order.pairs_with_a_leap_twin", 3);
      }
    }
  }
  // a far partner in another year
  let j = rng.below(n);
  let f = seq.months[j];
  pairs.push(((a, rng.range(1, a.days.max(1))), (f, rng.range(1, f.days.max(1)))));
  for ((x, dx), (y, dy)) in pairs {
    for (p, dp, q, dq) in [(x, dx, y, dy), (y, dy, x, dx)] {
      log.ev(1);
      let key = format!("{}_vs_{}", fmt_lym(p.y, p.m), fmt_lym(q.y, q.m));
      let input = format!("{}_vs_{}", fmt_lymd((p.y, p.m, dp)), fmt_lymd((q.y, q.m, dq)));
      let r = guard(|| {
        let l1 = LunarDay::from_ymd(p.y as isize, p.m as isize, dp as usize);
        let l2 = LunarDay::from_ymd(q.y as isize, q.m as isize, dq as usize);
        (l1.is_before(l2.clone()), l1.is_after(l2))
      });
      let (c1, c2) = (chrono(&p, dp), chrono(&q, dq));
      // order of labels within the enumerated sequence is the chronological order wherever months tile
      match r {
        Ok((b, af)) => {
          if b != (c1 < c2) || af != (c1 > c2) {
            log.violate(format!("C02/order/{}", key), "LunarDay::is_before/is_after", input.clone(), format!("before={} after={}", b, af), format!("before={} after={} (civil days {} and {})", c1 < c2, c1 > c2, c1, c2));
          }
        }
        Err(msg) => log.violate(format!("C02/order/{}", key), "LunarDay::is_before/is_after", input.clone(), format!("panic: {}", msg), "a verdict".into()),
      }
      if p.m < 0 || q.m < 0 {
        log.nt(1);
      }
      log.count("order.pairs", 1);
    }
  }
  // hours: equal days decide on the clock, different days on the day
  if i % 16 == (cfg.seed % 16) as usize && i + 1 < n {
    let b = seq.months[i + 1];
    let cases = [((a, a.days, 23, 59, 59), (b, 1, 0, 0, 0)), ((a, d0, 5, 30, 0), (a, d0, 5, 30, 1)), ((a, d0, 7, 0, 59), (a, d0, 6, 59, 59)), ((a, d0, 12, 0, 0), (a, d0, 12, 0, 0))];
    for ((x, dx, h1, m1, s1), (y, dy, h2, m2, s2)) in cases {
      log.ev(1);
      let t1 = chrono(&x, dx) * 86400 + h1 * 3600 + m1 * 60 + s1;
      let t2 = chrono(&y, dy) * 86400 + h2 * 3600 + m2 * 60 + s2;
      let input = format!("{}T{:02}{:02}{:02}_vs_{}T{:02}{:02}{:02}", fmt_lymd((x.y, x.m, dx)), h1, m1, s1, fmt_lymd((y.y, y.m, dy)), h2, m2, s2);
      let key = format!("{}_vs_{}", fmt_lym(x.y, x.m), fmt_lym(y.y, y.m));
      let r = guard(|| {
        let a1 = LunarHour::from_ymd_hms(x.y as isize, x.m as isize, dx as usize, h1 as usize, m1 as usize, s1 as usize);
        let a2 = LunarHour::from_ymd_hms(y.y as isize, y.m as isize, dy as usize, h2 as usize, m2 as usize, s2 as usize);
        (a1.is_before(a2.clone()), a1.is_after(a2.clone()), a2.is_before(a1.clone()), a2.is_after(a1))
      });
      match r {
        Ok((b1, a1, b2, a2)) => {
          if b1 != (t1 < t2) || a1 != (t1 > t2) || b2 != (t2 < t1) || a2 != (t2 > t1) {
            log.violate(format!("C02/order-hour/{}", key), "LunarHour::is_before/is_after", input.clone(), format!("{} {} {} {}", b1, a1, b2, a2), format!("{} {} {} {}", t1 < t2, t1 > t2, t2 < t1, t2 > t1));
          }
        }
        Err(msg) => log.violate(format!("C02/order-hour/{}", key), "LunarHour::is_before/is_after", input.clone(), format!("panic: {}", msg), "a verdict".into()),
      }
      log.count("order.hour_pairs", 1);
    }
  }
}

/// lunar days that have already answered questions are stepped (day-by-day chain through month i into the next
/// month, and one random jump of -35..35 days): label, civil date, sexagenary-day view and round trip of every
/// stepped value are those of the civil day n days later, whatever the source value had memoised
fn walk_at(i: usize, cfg: &Cfg, log: &mut Log) {
  use tyme4rs::tyme::Tyme;
  let seq = lunar_seq();
  let n = seq.months.len();
  if i < 2 || i + 3 >= n {
    return;
  }
  let w = &seq.months[i - 2..=i + 3];
  // the months around must tile (they do not in the listed reform eras) and be convertible
  if w.windows(2).any(|p| p[0].first + p[0].days != p[1].first) || !cal().in_range(w[0].first) || !cal().in_range(w[5].first + w[5].days) {
    log.count("walk.months_skipped_not_tiling_or_out_of_range", 1);
    return;
  }
  if w.iter().any(|m| [8i64, 9, 23, 24, 25, 239, 240].contains(&m.y)) {
    log.count("walk.months_skipped_not_tiling_or_out_of_range", 1);
    return;
  }
  let label_of = |c: i64| -> Option<Lymd> { w.iter().find(|m| c >= m.first && c < m.first + m.days).map(|m| (m.y, m.m, c - m.first + 1)) };
  let a = w[2];
  let mut rng = Rng::new(mix(cfg.seed, i as u64 ^ 0x1C02));
  let warm0 = rng.below(5);
  let d0 = rng.range(1, a.days);
  let jump = rng.range(-35, 35);
  let mkey = fmt_lym(a.y, a.m);
  let warm = |v: &LunarDay, k: usize| match k % 5 {
    0 => {}
    1 => {
      let _ = v.get_solar_day();
    }
    2 => {
      let _ = v.get_sixty_cycle_day();
    }
    3 => {
      let _ = v.get_week();
      let _ = v.get_duty();
    }
    _ => {
      let _ = v.get_solar_day();
      let _ = v.get_sixty_cycle_day();
    }
  };
  type Obs = (Lymd, Ymd, Option<Ymd>, Lymd);
  let observe = |v: &LunarDay| -> Obs {
    let s = v.get_solar_day();
    (lymd(v), ymd(&s), Some(ymd(&v.get_sixty_cycle_day().get_solar_day())), lymd(&s.get_lunar_day()))
  };
  let r = guard(|| {
    let mut out: Vec<(String, String, String)> = vec![];
    let mut steps = 0u64;
    let judge = |what: &str, k: i64, c: i64, o: Obs, out: &mut Vec<(String, String, String)>| {
      let want_l = label_of(c);
      let want_s = cal().date(c);
      if Some(o.0) != want_l || o.1 != want_s || o.2 != Some(want_s) || Some(o.3) != want_l {
        out.push((
          format!("C02/stepped-{}/{}", what, mkey),
          format!("step {:+}: label {} civil {} sexagenary-day view on {} round trip {}", k, fmt_lymd(o.0), fmt_ymd(o.1), o.2.map(fmt_ymd).unwrap_or_default(), fmt_lymd(o.3)),
          format!("label {} civil {}", want_l.map(fmt_lymd).unwrap_or_default(), fmt_ymd(want_s)),
        ));
      }
    };
    // chain from day 1 through the month and two days into the next
    let mut v = LunarDay::from_ymd(a.y as isize, a.m as isize, 1);
    for k in 0..a.days + 2 {
      warm(&v, warm0 + k as usize);
      let nx = v.next(1);
      // the value stepped from is judged after it has been stepped from, the stepped one on the next round
      if k == 0 || out.is_empty() {
        judge("chain", k, a.first + k, observe(&v), &mut out);
      }
      steps += 1;
      v = nx;
    }
    // chain backwards from the last day
    let mut v = LunarDay::from_ymd(a.y as isize, a.m as isize, a.days as usize);
    for k in 0..4i64 {
      warm(&v, warm0 + 1 + k as usize);
      let nx = v.next(-1);
      judge("chain-back", -k, a.first + a.days - 1 - k, observe(&v), &mut out);
      steps += 1;
      v = nx;
    }
    // one jump from a warmed value
    let o = LunarDay::from_ymd(a.y as isize, a.m as isize, d0 as usize);
    warm(&o, warm0 + 1);
    let g = o.next(jump as isize);
    judge("jump", jump, a.first + d0 - 1 + jump, observe(&g), &mut out);
    judge("jump-source", 0, a.first + d0 - 1, observe(&o), &mut out);
    // and from the civil side: the lunar day handed out by a civil day, warmed, stepped
    let s = sd_of_dn(a.first + d0 - 1).get_lunar_day();
    warm(&s, warm0 + 2);
    let g2 = s.next(-jump as isize);
    judge("jump-from-civil", -jump, a.first + d0 - 1 - jump, observe(&g2), &mut out);
    steps += 3;
    (out, steps)
  });
  log.ev(1);
  match r {
    Ok((v, steps)) => {
      log.count("walk.stepped_values_judged", steps);
      log.count("walk.months_walked", 1);
      if a.m < 0 {
        log.count("walk.leap_months_walked", 1);
        log.nt(1);
      }
      for (sig, o, e) in v {
        log.violate(sig, "LunarDay::next after earlier queries", format!("{} warm{} day{} jump{:+}", mkey, warm0, d0, jump), o, e);
      }
    }
    Err(msg) => log.violate(format!("C02/panic-stepped/{}", mkey), "LunarDay::next after earlier queries", mkey.clone(), format!("panic: {}", msg), "no panic".into()),
  }
}

/// the label the enumerated months give civil day n (None in the listed reform eras and where months do not tile)
fn label_of_day(n: i64) -> Option<(LM, i64)> {
  let seq = lunar_seq();
  if cal::reform_era_near(n) || cal::reform_era_near(n + 40) {
    return None;
  }
  let k = seq.months.partition_point(|lm| lm.first <= n);
  if k == 0 {
    return None;
  }
  let lm = seq.months[k - 1];
  if n >= lm.first + lm.days || [8i64, 9, 23, 24, 25, 239, 240].contains(&lm.y) {
    return None;
  }
  Some((lm, n - lm.first + 1))
}

/// one history operation on civil day n
fn history_op(n: i64, rng: &mut Rng) -> (String, Vec<String>, u64) {
  let name = cal::fmt_dn(n);
  let (lm, d) = match label_of_day(n) {
    Some(x) => x,
    None => return (format!("skip({})", name), vec![], 0),
  };
  let want = (lm.y, lm.m, d);
  let mut bad = vec![];
  match rng.below(6) {
    0 | 1 => {
      let l = sd_of_dn(n).get_lunar_day();
      let got = (lymd(&l), dn_of(&l.get_solar_day()), l.get_lunar_month().get_day_count() as i64);
      if got != (want, Some(n), lm.days) {
        bad.push(format!("lunar {} back {:?} month length {}, expected {} back {} length {}", fmt_lymd(got.0), got.1.map(cal::fmt_dn), got.2, fmt_lymd(want), name, lm.days));
      }
      (format!("to-lunar({})", name), bad, 1)
    }
    2 | 3 => {
      let l = LunarDay::from_ymd(lm.y as isize, lm.m as isize, d as usize);
      let s = l.get_solar_day();
      let got = (dn_of(&s), lymd(&s.get_lunar_day()));
      if got != (Some(n), want) {
        bad.push(format!("civil {:?} back {}, expected {} back {}", got.0.map(cal::fmt_dn), fmt_lymd(got.1), name, fmt_lymd(want)));
      }
      (format!("to-civil({})", fmt_lymd(want)), bad, 1)
    }
    4 => {
      // a day the month does not have, then one it has
      let refused_day = refused(|| LunarDay::new(lm.y as isize, lm.m as isize, (lm.days + 1) as usize).is_ok());
      let refused_month = lm.m > 0 && lunar_seq().leap[lm.y as usize] != lm.m && refused(|| LunarDay::new(lm.y as isize, -lm.m as isize, 1).is_ok());
      let ok = LunarDay::new(lm.y as isize, lm.m as isize, d as usize).map(|l| dn_of(&l.get_solar_day()));
      if !refused_day || (lm.m > 0 && lunar_seq().leap[lm.y as usize] != lm.m && !refused_month) || ok != Ok(Some(n)) {
        bad.push(format!("day {} refused={} then {:?}, expected refused then {}", lm.days + 1, refused_day, ok, name));
      }
      (format!("refuse-then-accept({})", fmt_lymd(want)), bad, 1)
    }
    _ => {
      let o = crate::history::related_day(rng, n);
      match label_of_day(o) {
        Some((om, od)) => {
          let l1 = LunarDay::from_ymd(lm.y as isize, lm.m as isize, d as usize);
          let l2 = LunarDay::from_ymd(om.y as isize, om.m as isize, od as usize);
          let h1 = LunarHour::from_ymd_hms(lm.y as isize, lm.m as isize, d as usize, 23, 59, 59);
          let h2 = LunarHour::from_ymd_hms(om.y as isize, om.m as isize, od as usize, 0, 0, 0);
          let got = (l1.is_before(l2.clone()), l1.is_after(l2), h1.is_before(h2.clone()), h1.is_after(h2.clone()), dn_of(&h2.get_solar_time().get_solar_day()));
          let want_o = (n < o, n > o, n < o, n >= o, Some(o));
          if got != want_o {
            bad.push(format!("{:?}, expected {:?}", got, want_o));
          }
          (format!("order({}, {})", fmt_lymd(want), fmt_lymd((om.y, om.m, od))), bad, 1)
        }
        None => ("order(skip)".into(), bad, 0),
      }
    }
  }
}

pub fn run(cfg: &Cfg) -> (Log, Meta) {
  crate::util::set_thread_cap(6);
  let mut log = Log::new();
  if let Err(e) = cal::self_test() {
    log.harness_error(&format!("oracle self-test failed: {}", e));
  }
  let seq = lunar_seq();
  for e in &seq.errors {
    log.harness_error(&format!("lunar enumeration: {}", e));
  }
  // 1. civil side, every date
  let blocks = (TOTAL_DAYS + CHUNK - 1) / CHUNK;
  log.merge(par_range(blocks, 1, |b, l| solar_block(b, l)));
  // 2. ordering at every month
  log.merge(par_range(seq.months.len(), 256, |i, l| order_at(i, cfg, l)));
  // 3. lunar side
  let years: Vec<i64> = match cfg.tier {
    Tier::Thorough => (0..=9999).collect(),
    Tier::Quick => (0..=9999).filter(|y| y % 8 == (cfg.seed % 8) as i64 || *y <= 300 || (1570..=1600).contains(y) || *y >= 9900).collect(),
  };
  log.merge(par_range(years.len(), 8, |i, l| lunar_year(years[i], l)));
  // 4. stepping values that carry memos
  let stride = cfg.tier.pick(6usize, 1usize);
  let widx: Vec<usize> = (0..seq.months.len()).filter(|i| i % stride == (cfg.seed as usize) % stride || seq.months[*i].m < 0 && i % 2 == 0).collect();
  log.merge(par_range(widx.len(), 64, |i, l| walk_at(widx[i], cfg, l)));
  // 5. conversions on related days on one thread
  let nh = cfg.tier.pick(30_000usize, 500_000usize);
  log.merge(par_range(nh, 100, |i, l| crate::history::day_walk("C02", "a sequence of conversions on related days on one thread", i, cfg.seed, FIRST + 400, LAST - 400, l, history_op)));
  log.floor("history.answers_judged", cfg.tier.pick(250_000, 4_000_000));
  // out-of-range years are refused (after the valid-domain sweep, see DESIGN section 2)
  for y in [-2i64, -3, 10000, 10001] {
    log.ev(1);
    if !refused(|| LunarDay::new(y as isize, 1, 1).is_ok()) {
      log.violate(format!("C02/lunar-refuse-year/{}", y), "LunarDay::new", format!("({}, 1, 1)", y), "accepted".into(), "refused".into());
    }
    log.count("lunar.refusals_checked", 1);
  }
  // and a valid request afterwards still works
  match guard(|| lymd(&sd(2024, 2, 10).get_lunar_day())) {
    Ok(l) if l == (2024, 1, 1) => {}
    other => log.violate("C02/after-refusals/2024-02-10".into(), "get_lunar_day after refused requests", "2024-02-10".into(), format!("{:?}", other), "lunar 2024-01-01".into()),
  }
  log.floor("solar.leap_month_days_converted", 50_000);
  log.floor("solar.month_boundary_transitions", 100_000);
  log.floor("solar.year_boundary_transitions", 9_900);
  log.floor("order.pairs_with_a_leap_twin", 50_000);
  log.floor("lunar.days_round_tripped", cfg.tier.pick(400_000, 3_600_000));
  log.floor("lunar.refusals_checked", cfg.tier.pick(50_000, 400_000));
  log.floor("walk.months_walked", cfg.tier.pick(15_000, 110_000));
  log.floor("walk.leap_months_walked", cfg.tier.pick(1_000, 3_000));
  log.floor("walk.stepped_values_judged", cfg.tier.pick(500_000, 4_000_000));
  let meta = Meta {
    rule: format!(
      "civil side exhaustive (all 3,652,061 dates: get_lunar_day, back, successor relation to the previous day); ordering at every one of the {} months (last/first, random days of m, m+1, m+2, same month, a far partner, and for every leap month all ordered pairs of {{regular, leap, next}} x 3 day choices; LunarHour order on every 16th boundary); lunar side: every accepted (year, month, day) of {} lunar years round-tripped and day 0 / day_count+1 / day 31 / month 0, +-13, +-14 / every leap month the year lacks / years -2,-3,10000,10001 refused; stepping: in {} months a day-by-day LunarDay::next chain through the month (values first answer a drawn subset of their getters), a backward chain, and jumps of -35..35 days from warmed values built by label and handed out by a civil day - label, civil date, sexagenary-day view and round trip of each stepped value vs the counted calendar; histories: {} seeded single-thread sequences of 6..16 conversions (civil to lunar and back, lunar label to civil and back, a refused day / leap label then a valid one, order of two related dates as days and as 23:59:59 / 00:00:00 hours) - {}. Non-trivial = leap-month days, month-boundary transitions, leap-twin pairs, refusal probes (counted).",
      seq.months.len(),
      years.len(),
      widx.len(),
      nh,
      crate::history::WALK_TEXT
    ),
    assumptions: vec!["chronological order of lunar dates = order of first_julian_day + day - 1 as reported by the library; equal to civil order wherever months tile (C03)".into(), "Err and panic both count as refusal".into()],
    exhaustive: cfg.tier == Tier::Thorough,
  };
  (log, meta)
}
