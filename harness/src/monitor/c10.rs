pub fn child_main(_args: &[String]) {}
