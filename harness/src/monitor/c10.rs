//! C10 — answers do not depend on call history, thread interleaving or earlier refusals.
//! M1 sequential histories (collision-biased, refusals injected at every position of short ones),
//! M2 16-thread rounds with the guarded yield between the cache's two critical sections,
//! M3 Miri on a small threaded workload (thorough), M4 fresh processes answering one list in
//! different orders, M5 per-value memos.  Reference = the cold answer after the guarded cache reset.
use crate::api::*;
use crate::log::Log;
use crate::model::cal::{self, cal};
use crate::util::{fnv, guard, mix, Rng};
use crate::{Cfg, Meta, Tier};
use std::collections::{BTreeMap, BTreeSet};
use std::sync::{Arc, Barrier, Mutex};
use tyme4rs::tyme::eightchar::ChildLimit;
use tyme4rs::tyme::enums::Gender;
use tyme4rs::tyme::festival::LunarFestival;
use tyme4rs::tyme::lunar::verif as lhook;
use tyme4rs::tyme::lunar::{LunarDay, LunarHour, LunarMonth, LunarYear};
use tyme4rs::tyme::{Culture, Tyme};

#[derive(Clone, Debug, PartialEq, Eq, PartialOrd, Ord, Hash)]
pub enum Q {
  Month(i64, i64),
  YearMonths(i64),
  SolarToLunar(i64),
  LunarToSolar(i64, i64, i64),
  SixtyDay(i64),
  Festival(i64, i64),
  EightChar(i64),
  ChildLimit(i64, bool),
  MonthNext(i64, i64, i64),
  /// the public, uncached constructor
  MonthNew(i64, i64),
  // ---- the wider API surface (M7 / fresh processes): any function may have grown a memo
  Term(i64, i64),
  TermDay(i64),
  Week(i64, i64),
  JdDay(i64, i64),
  SolarFest(i64, i64),
  LunarFestDate(i64, i64, i64),
  Holiday(i64),
  Almanac(i64),
  HourAlmanac(i64),
  Series(i64),
  LeapMonth(i64),
  Pillar(i64, i64),
  Clock(i64, i64),
  HolidayNext(i64, i64),
}

impl Q {
  pub fn show(&self) -> String {
    match self {
      Q::Month(y, m) => format!("LunarMonth::from_ym({}, {})", y, m),
      Q::YearMonths(y) => format!("LunarYear({}).get_months()", y),
      Q::SolarToLunar(n) => format!("{}.get_lunar_day()", cal::fmt_dn(*n)),
      Q::LunarToSolar(y, m, d) => format!("LunarDay({}, {}, {}).get_solar_day()", y, m, d),
      Q::SixtyDay(n) => format!("{}.get_sixty_cycle_day()", cal::fmt_dn(*n)),
      Q::Festival(y, i) => format!("LunarFestival::from_index({}, {})", y, i),
      Q::EightChar(a) => format!("{}.get_lunar_hour().get_eight_char()", fmt_abs(*a)),
      Q::ChildLimit(a, man) => format!("ChildLimit({}, {})", fmt_abs(*a), if *man { "man" } else { "woman" }),
      Q::MonthNext(y, m, n) => format!("LunarMonth({}, {}).next({})", y, m, n),
      Q::MonthNew(y, m) => format!("LunarMonth::new({}, {})", y, m),
      Q::Term(y, i) => format!("SolarTerm::from_index({}, {})", y, i),
      Q::TermDay(n) => format!("{}.get_term_day()", cal::fmt_dn(*n)),
      Q::Week(n, s) => format!("{}.get_solar_week({})", cal::fmt_dn(*n), s),
      Q::JdDay(n, ms) => format!("JulianDay({}+{}ms).get_solar_day()", cal::fmt_dn(*n), ms),
      Q::SolarFest(y, i) => format!("SolarFestival::from_index({}, {})", y, i),
      Q::LunarFestDate(y, m, d) => format!("LunarFestival::from_ymd({}, {}, {})", y, m, d),
      Q::Holiday(n) => format!("{}.get_legal_holiday()", cal::fmt_dn(*n)),
      Q::Almanac(n) => format!("{} day almanac", cal::fmt_dn(*n)),
      Q::HourAlmanac(a) => format!("{} hour almanac", fmt_abs(*a)),
      Q::Series(n) => format!("{} nine/dog/plum/pentad/commanding stem", cal::fmt_dn(*n)),
      Q::LeapMonth(y) => format!("LunarYear({}).get_leap_month()", y),
      Q::Pillar(i, n) => format!("SixtyCycle({}).next({})", i, n),
      Q::Clock(a, n) => format!("{}.next({}) / subtract", fmt_abs(*a), n),
      Q::HolidayNext(n, k) => format!("{}.get_legal_holiday().next({})", cal::fmt_dn(*n), k),
    }
  }

  /// canonical answer; a refusal (Err or panic) is the answer "REFUSED"
  pub fn answer(&self) -> String {
    let r = guard(|| match self {
      Q::Month(y, m) => {
        let x = LunarMonth::from_ym(*y as isize, *m as isize);
        format!("{}/{} first {} days {} idx {}", x.get_year(), x.get_month_with_leap(), first_dn(&x), x.get_day_count(), x.get_index_in_year())
      }
      Q::YearMonths(y) => LunarYear::from_year(*y as isize).get_months().iter().map(|m| format!("{}:{}:{}", m.get_month_with_leap(), first_dn(m), m.get_day_count())).collect::<Vec<_>>().join(","),
      Q::SolarToLunar(n) => fmt_lymd(lymd(&sd_of_dn(*n).get_lunar_day())),
      Q::LunarToSolar(y, m, d) => fmt_ymd(ymd(&LunarDay::from_ymd(*y as isize, *m as isize, *d as usize).get_solar_day())),
      Q::SixtyDay(n) => {
        let d = sd_of_dn(*n).get_sixty_cycle_day();
        format!("{} {} {}", d.get_year().get_name(), d.get_month().get_name(), d.get_sixty_cycle().get_name())
      }
      Q::Festival(y, i) => match LunarFestival::from_index(*y as isize, *i as usize) {
        Some(f) => format!("{} {}", fmt_lymd(lymd(&f.get_day())), f.get_name()),
        None => "none".into(),
      },
      Q::EightChar(a) => st_of_abs(*a).get_lunar_hour().get_eight_char().get_name(),
      Q::ChildLimit(a, man) => {
        let c = ChildLimit::from_solar_time(st_of_abs(*a), if *man { Gender::MAN } else { Gender::WOMAN });
        format!("{} y{} m{} d{} h{} mi{} fwd {}", c.get_end_time(), c.get_year_count(), c.get_month_count(), c.get_day_count(), c.get_hour_count(), c.get_minute_count(), c.is_forward())
      }
      Q::MonthNext(y, m, n) => {
        let x = LunarMonth::from_ym(*y as isize, *m as isize).next(*n as isize);
        format!("{}/{} first {}", x.get_year(), x.get_month_with_leap(), first_dn(&x))
      }
      Q::MonthNew(y, m) => match LunarMonth::new(*y as isize, *m as isize) {
        Ok(x) => format!("{}/{} first {} days {} idx {}", x.get_year(), x.get_month_with_leap(), first_dn(&x), x.get_day_count(), x.get_index_in_year()),
        Err(_) => "REFUSED".into(),
      },
      Q::Term(y, i) => {
        let t = tyme4rs::tyme::solar::SolarTerm::from_index(*y as isize, *i as isize);
        format!("{} {} {} {:?} {:?}", t.get_year(), t.get_index(), t.get_name(), t.get_julian_day().get_day().to_bits(), t.get_cursory_julian_day().to_bits())
      }
      Q::TermDay(n) => {
        let sd = sd_of_dn(*n);
        let td = sd.get_term_day();
        format!("{} {} {} / {}", td.get_solar_term().get_year(), td.get_solar_term().get_index(), td.get_day_index(), sd.get_term().get_name())
      }
      Q::Week(n, st) => {
        let sd = sd_of_dn(*n);
        let w = sd.get_solar_week(*st as usize);
        format!("{} idx {} in-year {} count {}", fmt_ymd(ymd(&w.get_first_day())), w.get_index(), w.get_index_in_year(), sd.get_solar_month().get_week_count(*st as usize))
      }
      Q::JdDay(n, ms) => {
        let j = tyme4rs::tyme::jd::JulianDay::from_julian_day(*n as f64 - 0.5 + *ms as f64 / 86_400_000.0);
        format!("{} {}", fmt_ymd(ymd(&j.get_solar_day())), j.get_solar_time())
      }
      Q::SolarFest(y, i) => match tyme4rs::tyme::festival::SolarFestival::from_index(*y as isize, *i as usize) {
        Some(f) => format!("{} {}", fmt_ymd(ymd(&f.get_day())), f.get_name()),
        None => "none".into(),
      },
      Q::LunarFestDate(y, m, d) => match LunarFestival::from_ymd(*y as isize, *m as isize, *d as usize) {
        Some(f) => format!("{} {} {}", f.get_index(), fmt_lymd(lymd(&f.get_day())), f.get_name()),
        None => "none".into(),
      },
      Q::Holiday(n) => match sd_of_dn(*n).get_legal_holiday() {
        Some(h) => format!("{} {} {}", fmt_ymd(ymd(&h.get_day())), h.is_work(), h.get_name()),
        None => "none".into(),
      },
      Q::Almanac(n) => {
        let l = sd_of_dn(*n).get_lunar_day();
        let names = |v: Vec<String>| v.join(",");
        let scd = sd_of_dn(*n).get_sixty_cycle_day();
        format!(
          "{} {} {} {} / {} {} {} {} {} | {} | {} | {}",
          scd.get_duty().get_name(),
          scd.get_twelve_star().get_name(),
          scd.get_twenty_eight_star().get_name(),
          scd.get_nine_star().get_name(),
          l.get_duty().get_name(),
          l.get_twelve_star().get_name(),
          l.get_twenty_eight_star().get_name(),
          l.get_nine_star().get_name(),
          l.get_six_star().get_name(),
          names(l.get_gods().iter().map(|g| g.get_name()).collect()),
          names(l.get_recommends().iter().map(|g| g.get_name()).collect()),
          names(l.get_avoids().iter().map(|g| g.get_name()).collect())
        )
      }
      Q::HourAlmanac(a) => {
        let h = st_of_abs(*a).get_lunar_hour();
        let names = |v: Vec<String>| v.join(",");
        format!("{} {} {} | {} | {}", h.get_sixty_cycle().get_name(), h.get_nine_star().get_name(), h.get_twelve_star().get_name(), names(h.get_recommends().iter().map(|g| g.get_name()).collect()), names(h.get_avoids().iter().map(|g| g.get_name()).collect()))
      }
      Q::Series(n) => {
        let sd = sd_of_dn(*n);
        let ph = sd.get_phenology_day();
        let hh = sd.get_hide_heaven_stem_day();
        format!(
          "{:?} {:?} {:?} {} {} {} {}",
          sd.get_nine_day().map(|x| (x.get_nine().get_index(), x.get_day_index())),
          sd.get_dog_day().map(|x| (x.get_dog().get_index(), x.get_day_index())),
          sd.get_plum_rain_day().map(|x| (x.get_plum_rain().get_index(), x.get_day_index())),
          ph.get_phenology().get_index(),
          ph.get_day_index(),
          hh.get_hide_heaven_stem().get_heaven_stem().get_name(),
          hh.get_day_index()
        )
      }
      Q::LeapMonth(y) => {
        let ly = LunarYear::from_year(*y as isize);
        format!("{} {} {}", ly.get_leap_month(), ly.get_month_count(), ly.get_day_count())
      }
      Q::Pillar(i, n) => {
        let p = tyme4rs::tyme::sixtycycle::SixtyCycle::from_index(*i as isize);
        let _ = p.get_ten();
        let _ = p.get_sound();
        let q = p.next(*n as isize);
        format!("{} {} {} {}", q.get_name(), q.get_ten().get_name(), q.get_sound().get_name(), q.get_extra_earth_branches().iter().map(|b| b.get_name()).collect::<Vec<_>>().join(""))
      }
      Q::Clock(a, n) => {
        let st = st_of_abs(*a);
        let x = st.next(*n as isize);
        format!("{} {} {}", x, x.subtract(st), x.get_julian_day().get_day().to_bits())
      }
      Q::HolidayNext(n, k) => match sd_of_dn(*n).get_legal_holiday().and_then(|h| h.next(*k as isize)) {
        Some(h) => format!("{} {} {}", fmt_ymd(ymd(&h.get_day())), h.is_work(), h.get_name()),
        None => "none".into(),
      },
    });
    match r {
      Ok(s) => s,
      Err(_) => "REFUSED".into(),
    }
  }
}

/// requests the library must refuse (each kind is injected into histories)
pub fn refusals() -> Vec<(&'static str, Q)> {
  let c = cal();
  vec![
    ("month-0", Q::Month(2024, 0)),
    ("month-13", Q::Month(2024, 13)),
    ("month-minus-13", Q::Month(1999, -13)),
    ("leap-month-the-year-lacks", Q::Month(2024, -3)),
    ("year-minus-2", Q::Month(-2, 1)),
    ("year-10000", Q::Month(10000, 1)),
    ("lunar-day-31", Q::LunarToSolar(2023, 5, 31)),
    ("lunar-day-0", Q::LunarToSolar(2023, 5, 0)),
    ("year-months-10000", Q::YearMonths(10000)),
    // a birth whose child-limit end falls into the October 1582 gap: panics inside the provider call
    ("child-limit-end-in-the-1582-gap", Q::ChildLimit(c.dn(1580, 3, 3) * 86400 + 13 * 3600 + 22 * 60 + 37, false)),
    ("eight-char-in-year-0-territory", Q::EightChar(c.dn(1, 1, 2) * 86400 + 3600)),
  ]
}

fn collision_bases(rng: &mut Rng, n: usize) -> Vec<i64> {
  let mut v = vec![1i64, 2, 20, 202, 203, 999, 100, 190];
  while v.len() < n {
    v.push(rng.range(1, 999));
  }
  v
}

/// the pool of valid queries (all in-range, outside the reform eras for day-level ones)
pub fn pool(seed: u64, size: usize) -> Vec<Q> {
  let c = cal();
  let mut rng = Rng::new(mix(seed, 0xC10));
  let mut set: BTreeSet<Q> = BTreeSet::new();
  for y in collision_bases(&mut rng, 24) {
    // (Y, 11) / (10Y+1, 1) and (Y, 12) / (10Y+1, 2) concatenate to the same digits
    set.insert(Q::Month(y, 11));
    set.insert(Q::Month(10 * y + 1, 1));
    set.insert(Q::Month(y, 12));
    set.insert(Q::Month(10 * y + 1, 2));
  }
  let safe_day = |rng: &mut Rng| loop {
    let n = rng.range(c.dn(30, 1, 1), c.dn(9990, 1, 1));
    let y = c.date(n).0;
    if !(233..=243).contains(&y) {
      return n;
    }
  };
  while set.len() < size {
    let q = match rng.below(12) {
      0 | 1 => {
        let y = rng.range(30, 9990);
        let leap = LunarYear::from_year(y as isize).get_leap_month() as i64;
        let m = if leap > 0 && rng.chance(1, 3) { -leap } else { rng.range(1, 12) };
        Q::Month(y, m)
      }
      2 => Q::YearMonths(rng.range(30, 9990)),
      3 | 4 => Q::SolarToLunar(safe_day(&mut rng)),
      5 => {
        let y = rng.range(30, 9990);
        Q::LunarToSolar(y, rng.range(1, 12), rng.range(1, 29))
      }
      6 => Q::SixtyDay(safe_day(&mut rng)),
      7 => Q::Festival(rng.range(30, 9990), rng.range(0, 12)),
      8 => Q::EightChar(safe_day(&mut rng) * 86400 + rng.range(0, 86399)),
      9 => {
        // child limits far from 1582
        let n = loop {
          let n = safe_day(&mut rng);
          let y = c.date(n).0;
          if !(1560..=1600).contains(&y) && y < 9900 {
            break n;
          }
        };
        Q::ChildLimit(n * 86400 + rng.range(0, 86399), rng.chance(1, 2))
      }
      10 => {
        let y = rng.range(30, 9900);
        Q::MonthNext(y, rng.range(1, 12), rng.range(-30, 30))
      }
      _ => {
        // small years: more digit-collision opportunities
        let y = rng.range(30, 999);
        Q::Month(y, rng.range(1, 12))
      }
    };
    set.insert(q);
  }
  let mut v: Vec<Q> = set.into_iter().collect();
  rng.shuffle(&mut v);
  v
}


fn wide_day(rng: &mut Rng) -> i64 {
  let c = cal();
  crate::history::start_day(rng).clamp(c.dn(2, 1, 1), c.dn(9990, 1, 1))
}

/// a random query of the wider API surface
fn wide_query(rng: &mut Rng) -> Q {
  let n = wide_day(rng);
  let (y, _, _) = cal().date(n);
  match rng.below(16) {
    14 | 15 => {
      // a birth (not in 1560-1600, whose limits meet the October 1582 gap), every third one in the first days of a year
      let mut a = n * 86400 + rng.range(0, 86399);
      let mut yy = y;
      if (1560..=1600).contains(&yy) || yy >= 9900 || yy < 30 {
        yy = rng.range(1700, 9800);
        a = cal().dn(yy, 6, 15) * 86400 + rng.range(0, 86399);
      }
      if rng.chance(1, 3) {
        a = cal().dn(yy, 1, rng.range(1, 5)) * 86400 + rng.range(0, 86399);
      }
      if rng.chance(1, 2) {
        Q::ChildLimit(a, rng.chance(1, 2))
      } else {
        Q::EightChar(a)
      }
    }
    0 => Q::Term(y, rng.range(-6, 30)),
    1 => Q::TermDay(n),
    2 => Q::Week(n, rng.range(0, 6)),
    3 => Q::JdDay(n, *rng.pick(&[0i64, 43_200_000, 86_399_400, 86_399_900])),
    4 => Q::SolarFest(y, rng.range(0, 9)),
    5 => Q::LunarFestDate(y, rng.range(1, 12), rng.range(1, 29)),
    6 => Q::Holiday(cal().dn(rng.range(2001, 2026), rng.range(1, 12), rng.range(1, 28))),
    7 => Q::Almanac(n),
    8 => Q::HourAlmanac(n * 86400 + rng.range(0, 86399)),
    9 => Q::Series(n),
    10 => Q::LeapMonth(y),
    11 => Q::Pillar(rng.range(0, 59), rng.range(-70, 70)),
    12 => Q::Clock(n * 86400 + rng.range(0, 86399), rng.range(-4_000_000, 4_000_000)),
    _ => Q::Festival(y, rng.range(0, 12)),
  }
}

/// a query related to q: the same question about a related day / year / instant / index, or another question
/// about the same day
fn related_query(q: &Q, rng: &mut Rng) -> Q {
  use crate::history::{related_day, related_instant, related_year};
  let c = cal();
  let (lo, hi) = (c.dn(2, 1, 1), c.dn(9990, 1, 1));
  let rd = |rng: &mut Rng, n: i64| related_day(rng, n).clamp(lo, hi);
  let ry = |rng: &mut Rng, y: i64| related_year(rng, y, 2, 9989);
  // the day a query is about, where it has one
  let day_of = |q: &Q| -> Option<i64> {
    match q {
      Q::TermDay(n) | Q::Week(n, _) | Q::JdDay(n, _) | Q::Holiday(n) | Q::HolidayNext(n, _) | Q::Almanac(n) | Q::Series(n) | Q::SolarToLunar(n) | Q::SixtyDay(n) => Some(*n),
      Q::HourAlmanac(a) | Q::Clock(a, _) | Q::EightChar(a) | Q::ChildLimit(a, _) => Some(a.div_euclid(86400)),
      _ => None,
    }
  };
  if rng.chance(1, 4) {
    if let Some(n) = day_of(q) {
      // another question about the same day
      return match rng.below(9) {
        0 => Q::TermDay(n),
        1 => Q::Week(n, rng.range(0, 6)),
        2 => Q::JdDay(n, *rng.pick(&[0i64, 86_399_900])),
        3 => Q::Almanac(n),
        4 => Q::Series(n),
        5 => Q::SolarToLunar(n),
        6 => Q::SixtyDay(n),
        7 => Q::HourAlmanac(n * 86400 + rng.range(0, 86399)),
        _ => Q::EightChar(n * 86400 + rng.range(0, 86399)),
      };
    }
  }
  match q {
    Q::Term(y, i) => {
      if rng.chance(1, 2) {
        Q::Term(ry(rng, *y), *i)
      } else {
        Q::Term(*y, (*i + *rng.pick(&[1i64, -1, 12, 24, -24, 2])).clamp(-30, 53))
      }
    }
    Q::TermDay(n) => Q::TermDay(rd(rng, *n)),
    Q::Week(n, s) => {
      if rng.chance(1, 4) {
        // the same month and day a multiple of 400 years away (the Gregorian weekday cycle, which the Julian part
        // of the range does not share)
        let (y, m, d) = c.date(*n);
        let y2 = y + 400 * *rng.pick(&[1i64, -1, 2, -2, 3, -3, 5, -5]);
        if y2 >= 2 && y2 <= 9989 && cal::exists(y2, m, d) {
          return Q::Week(c.dn(y2, m, d), *s);
        }
      }
      Q::Week(rd(rng, *n), if rng.chance(1, 3) { rng.range(0, 6) } else { *s })
    }
    Q::JdDay(n, ms) => Q::JdDay(rd(rng, *n), if rng.chance(1, 2) { 0 } else { *ms }),
    Q::SolarFest(y, i) => Q::SolarFest(ry(rng, *y), if rng.chance(1, 2) { *i } else { rng.range(0, 9) }),
    Q::Festival(y, i) => match rng.below(4) {
      0 if *y <= 998 && *i >= 10 => Q::Festival(10 * y + 1, i - 10),
      1 if y % 10 == 1 && *i <= 2 && *y > 10 => Q::Festival(y / 10, i + 10),
      2 => Q::Festival(*y, rng.range(0, 12)),
      _ => Q::Festival(ry(rng, *y), *i),
    },
    Q::LunarFestDate(y, m, d) => match rng.below(4) {
      0 => Q::LunarFestDate(*y, *d.min(&12), *m),
      1 if *m == 1 && *d >= 11 && *d <= 19 => Q::LunarFestDate(*y, 11, d - 10),
      2 => Q::LunarFestDate(ry(rng, *y), *m, *d),
      _ => Q::LunarFestDate(*y, rng.range(1, 12), *d),
    },
    Q::Holiday(n) => Q::Holiday((n + *rng.pick(&[0i64, 1, -1, 7, 30, 365, -365, 6, -6])).clamp(c.dn(2000, 1, 1), c.dn(2027, 1, 1))),
    Q::HolidayNext(n, k) => Q::HolidayNext((n + *rng.pick(&[0i64, 1, -1, 365, -365, 730])).clamp(c.dn(2001, 1, 1), c.dn(2026, 1, 1)), if rng.chance(1, 2) { *k } else { *rng.pick(&[1i64, -1, 2, 40, -40]) }),
    Q::Almanac(n) => Q::Almanac(rd(rng, *n)),
    Q::Series(n) => Q::Series(rd(rng, *n)),
    Q::LeapMonth(y) => Q::LeapMonth(ry(rng, *y)),
    Q::Pillar(i, n) => {
      if rng.chance(1, 2) {
        Q::Pillar((*i + *n).rem_euclid(60), *rng.pick(&[10i64, -10, 1, -1, 12, 60, 0]))
      } else {
        Q::Pillar(*i, rng.range(-70, 70))
      }
    }
    Q::HourAlmanac(a) => Q::HourAlmanac(related_instant(rng, *a).clamp(lo * 86400, hi * 86400)),
    Q::Clock(a, n) => Q::Clock(related_instant(rng, *a).clamp(lo * 86400, hi * 86400), if rng.chance(1, 2) { *n } else { *rng.pick(&[518_400i64, -518_400, 86_400, -1, 1, 31_536_000]) }),
    Q::SolarToLunar(n) => Q::SolarToLunar(rd(rng, *n)),
    Q::SixtyDay(n) => Q::SixtyDay(rd(rng, *n)),
    Q::EightChar(a) => Q::EightChar(related_instant(rng, *a).clamp(lo * 86400, hi * 86400)),
    Q::ChildLimit(a, man) if rng.chance(1, 3) => {
      // the other end of the same civil year: the first days of January <-> December after Daxue
      let (y, m, _) = c.date(a.div_euclid(86400));
      let d = if m <= 6 { c.dn(y, 12, rng.range(8, 31)) } else { c.dn(y, 1, rng.range(1, 5)) };
      Q::ChildLimit(d * 86400 + a.rem_euclid(86400), *man)
    }
    Q::ChildLimit(a, man) => {
      let b = related_instant(rng, *a).clamp(c.dn(30, 1, 1) * 86400, c.dn(9900, 1, 1) * 86400);
      let y = c.date(b.div_euclid(86400)).0;
      if (1560..=1600).contains(&y) {
        Q::ChildLimit(*a, !*man)
      } else {
        Q::ChildLimit(b, if rng.chance(1, 3) { !*man } else { *man })
      }
    }
    Q::Month(y, m) | Q::MonthNew(y, m) => {
      if *m >= 1 && *m <= 12 && rng.chance(1, 6) {
        // a label the year must refuse (0, 13, or a leap month it lacks); the walk then returns to a valid month of
        // the same year through the arm below
        let leap = guard(|| LunarYear::from_year(*y as isize).get_leap_month() as i64).unwrap_or(0);
        let bad = *rng.pick(&[0i64, 13, -13, if leap == *m { 13 } else { -*m }]);
        return Q::MonthNew(*y, bad);
      }
      let y2 = if rng.chance(1, 2) && *m >= 1 && *m <= 12 { ry(rng, *y) } else { *y };
      let leap = guard(|| LunarYear::from_year(y2 as isize).get_leap_month() as i64).unwrap_or(0);
      let m2 = if rng.chance(1, 3) && leap > 0 {
        -leap
      } else if rng.chance(1, 2) && m.abs() >= 1 && m.abs() <= 12 {
        m.abs()
      } else {
        rng.range(1, 12)
      };
      if rng.chance(1, 2) {
        Q::MonthNew(y2, m2)
      } else {
        Q::Month(y2, m2)
      }
    }
    Q::YearMonths(y) => Q::YearMonths(ry(rng, *y)),
    Q::LunarToSolar(y, m, d) => Q::LunarToSolar(ry(rng, *y), *m, *d),
    Q::MonthNext(y, m, n) => Q::MonthNext(ry(rng, *y), *m, *n),
  }
}

/// a list in which related queries stand next to each other: walks of 4..10 related queries from random starts
pub fn related_list(seed: u64, size: usize) -> Vec<Q> {
  let mut rng = Rng::new(mix(seed, 0x7C10));
  let base = pool(seed, 300);
  let mut v: Vec<Q> = Vec::with_capacity(size + 10);
  while v.len() < size {
    let mut q = if rng.chance(1, 4) { rng.pick(&base).clone() } else { wide_query(&mut rng) };
    for _ in 0..rng.range(4, 10) {
      v.push(q.clone());
      q = related_query(&q, &mut rng);
    }
  }
  v.truncate(size);
  v
}

/// M7: single-thread walks over related queries of the whole API surface.  Every answer must equal the answer
/// the same query gets as the only call of a fresh thread (thread-local state pristine).
fn m7(cfg: &Cfg, log: &mut Log) {
  let n = cfg.tier.pick(40_000usize, 400_000usize);
  let list = related_list(cfg.seed ^ 0x77, n);
  // fresh-thread answers, each computed once
  let mut distinct: Vec<Q> = list.clone();
  distinct.sort();
  distinct.dedup();
  let fresh: Mutex<BTreeMap<Q, String>> = Mutex::new(BTreeMap::new());
  let _ = crate::util::par_range(distinct.len(), 16, |i, _| {
    let q = distinct[i].clone();
    let q2 = q.clone();
    let a = std::thread::spawn(move || q2.answer()).join().unwrap_or_else(|_| "THREAD-PANIC".into());
    fresh.lock().unwrap().insert(q, a);
  });
  let fresh = fresh.into_inner().unwrap();
  log.count("m7.distinct_queries_answered_on_fresh_threads", fresh.len() as u64);
  // the walks, in list order, in chunks of 500 queries per worker thread (each chunk is one history)
  let chunks = (list.len() + 499) / 500;
  log.merge(crate::util::par_range(chunks, 1, |c, l| {
    let lo = c * 500;
    let hi = (lo + 500).min(list.len());
    for k in lo..hi {
      let q = &list[k];
      let got = q.answer();
      l.ev(1);
      l.count("m7.answers_compared", 1);
      let want = fresh.get(q).cloned().unwrap_or_default();
      if got != want {
        let hist: Vec<String> = list[k.saturating_sub(3).max(lo)..=k].iter().map(|x| x.show()).collect();
        l.violate(format!("C10/related-history/{}", fnv(&q.show()) % 1_000_000), "answer after related queries on the same thread", format!("... {}", hist.join(" ; ")), got, format!("{} (the same query as the only call of a fresh thread)", want));
      }
    }
    l.nt(1);
  }));
}

fn cold_answers(qs: &[Q]) -> BTreeMap<Q, String> {
  let mut m = BTreeMap::new();
  for q in qs {
    lhook::lunar_month_cache_reset();
    m.insert(q.clone(), q.answer());
  }
  lhook::lunar_month_cache_reset();
  m
}

fn locks_poisoned() -> Vec<&'static str> {
  let mut v = vec![];
  if lhook::lunar_month_cache_stats().3 {
    v.push("lunar month cache");
  }
  if lhook::eight_char_provider_poisoned() {
    v.push("eight-char provider");
  }
  if tyme4rs::tyme::eightchar::verif::child_limit_provider_poisoned() {
    v.push("child-limit provider");
  }
  v
}

fn history_key(h: &[Q]) -> String {
  let mut x = 0xC10u64;
  for q in h {
    x = mix(x, fnv(&q.show()));
  }
  format!("{:016x}", x)
}

/// run one sequential history from a cold cache; compare every answer with its cold answer
fn run_history(tag: &str, h: &[Q], cold: &BTreeMap<Q, String>, invalid: &BTreeSet<Q>, log: &mut Log) {
  lhook::lunar_month_cache_reset();
  log.ev(1);
  log.count("m1.histories", 1);
  log.nt_distinct(fnv(&history_key(h)));
  let mut injected = false;
  for (pos, q) in h.iter().enumerate() {
    let got = q.answer();
    log.ev(1);
    log.count("m1.queries", 1);
    if invalid.contains(q) {
      injected = true;
      log.count("m1.refusals_injected", 1);
      if got != "REFUSED" {
        log.violate(format!("C10/refusal-accepted/{}", fnv(&q.show()) % 100000), "refused request", q.show(), got, "REFUSED".into());
      }
      continue;
    }
    let want = cold.get(q).cloned().unwrap_or_default();
    if got != want {
      let hist: Vec<String> = h[..=pos].iter().map(|x| x.show()).collect();
      log.violate(
        format!("C10/{}/{}_{}", tag, history_key(h), pos),
        if injected { "answer after an earlier refusal" } else { "answer after a call history" },
        format!("history: {}", hist.join(" ; ")),
        format!("{} -> {}", q.show(), got),
        format!("{} (cold-cache answer)", want),
      );
      break;
    }
    if injected {
      log.count("m1.valid_answers_after_a_refusal", 1);
    }
  }
  log.sample(|| format!("history of {} queries starting {} ; {}", h.len(), h.first().map(|q| q.show()).unwrap_or_default(), h.get(1).map(|q| q.show()).unwrap_or_default()));
}

fn m1(cfg: &Cfg, pool: &[Q], cold: &BTreeMap<Q, String>, log: &mut Log) {
  let refs = refusals();
  let invalid: BTreeSet<Q> = refs.iter().map(|r| r.1.clone()).collect();
  let mut rng = Rng::new(mix(cfg.seed, 0x1C10));
  // (a) every collision pair in both orders, alone and with a third query in between
  let pairs: Vec<(Q, Q)> = pool
    .iter()
    .filter_map(|q| match q {
      Q::Month(y, m) if (*m == 11 || *m == 12) && *y <= 999 => Some((q.clone(), Q::Month(10 * y + 1, m - 10))),
      _ => None,
    })
    .filter(|(_, b)| cold.contains_key(b))
    .collect();
  for (a, b) in &pairs {
    for h in [vec![a.clone(), b.clone()], vec![b.clone(), a.clone()], vec![a.clone(), rng.pick(pool).clone(), b.clone(), a.clone()], vec![b.clone(), a.clone(), b.clone()]] {
      run_history("collision-history", &h, cold, &invalid, log);
      log.count("m1.collision_pair_histories", 1);
    }
  }
  // (b) refusal injected at every position of short histories, every kind
  let nshort = cfg.tier.pick(12usize, 120usize);
  for k in 0..nshort {
    let len = 1 + k % 6;
    let base: Vec<Q> = (0..len).map(|_| rng.pick(pool).clone()).collect();
    for (kind, (_, r)) in refs.iter().enumerate() {
      for pos in 0..=len {
        if cfg.tier == Tier::Quick && (k + kind + pos) % 3 != 0 {
          continue;
        }
        let mut h = base.clone();
        h.insert(pos, r.clone());
        // the same valid query right after the refusal, and once more at the end
        h.push(base[0].clone());
        run_history("refusal-history", &h, cold, &invalid, log);
        log.count("m1.short_histories_with_an_injected_refusal", 1);
      }
    }
  }
  // (c) long random histories, biased to collisions, refusals at random positions
  let nlong = cfg.tier.pick(300usize, 5_000usize);
  for _ in 0..nlong {
    let len = rng.range(50, 400) as usize;
    let mut h: Vec<Q> = Vec::with_capacity(len);
    for _ in 0..len {
      let q = match rng.below(10) {
        0 | 1 | 2 => {
          let (a, b) = rng.pick(&pairs).clone();
          if rng.chance(1, 2) {
            a
          } else {
            b
          }
        }
        3 => rng.pick(&refs).1.clone(),
        _ => rng.pick(pool).clone(),
      };
      h.push(q);
    }
    run_history("long-history", &h, cold, &invalid, log);
    log.count("m1.long_histories", 1);
  }
  // a poisoned flag is not observable through the API when every lock site recovers the guard; the
  // behavioural verdict is "every later valid answer equals its cold answer" above.  Reported only.
  let p = locks_poisoned();
  if !p.is_empty() {
    log.note(format!("after the sequential histories these locks carry the poison flag (calls recovered): {:?}", p));
  }
  let st = lhook::lunar_month_cache_stats();
  log.count("m1.cache_hits_in_last_history", st.1);
  log.count("m1.cache_misses_in_last_history", st.2);
}

fn m2(cfg: &Cfg, pool: &[Q], cold: &BTreeMap<Q, String>, log: &mut Log) {
  let rounds = cfg.tier.pick(120usize, 800usize);
  let nthreads = 16usize;
  let refs = refusals();
  // month-heavy list: the race is in LunarMonth::from_ym
  let months: Vec<Q> = pool.iter().filter(|q| matches!(q, Q::Month(..) | Q::YearMonths(..) | Q::SolarToLunar(..) | Q::MonthNext(..))).cloned().collect();
  let mut total_double = 0u64;
  for r in 0..rounds {
    let mut rng = Rng::new(mix(cfg.seed, r as u64 ^ 0x2C10));
    let cold_start = r % 2 == 0 || r % 4 == 1;
    let yields = if (r / 2) % 2 == 0 { 0 } else { 50 };
    if cold_start {
      lhook::lunar_month_cache_reset();
    }
    lhook::set_cache_gap_yields(yields);
    let before = lhook::lunar_month_cache_stats();
    // one shared list; every thread gets an overlapping, differently shuffled slice.  Every 4th round is
    // a "hot" round: 12 queries only, asked by all threads in the SAME order three times over, so that
    // all 16 threads compute the same missing key at the same moment
    let hot = r % 4 == 3;
    // every 4th round is a "storm": only cold month constructions of a handful of different lunar
    // years, so that many threads are inside LunarMonth::new for DIFFERENT years at the same moment
    // (state shared between constructions of different years shows up here)
    let storm = r % 4 == 1;
    let mut list: Vec<Q> = (0..if hot { 10 } else { 120 }).map(|_| rng.pick(&months).clone()).collect();
    for _ in 0..if hot { 2 } else { 40 } {
      list.push(rng.pick(pool).clone());
    }
    if storm {
      list.clear();
      let years: Vec<i64> = (0..4).map(|_| rng.range(30, 9990)).collect();
      for y in &years {
        for m in 1..=12 {
          list.push(Q::Month(*y, m));
        }
      }
      // and the uncached public constructor, many times over: every call is a real construction
      for _ in 0..6 {
        for y in &years {
          for m in 1..=12 {
            list.push(Q::MonthNew(*y, m));
          }
        }
      }
      log.count("m2.storm_rounds_cold_constructions_of_4_years", 1);
    }
    if hot {
      log.count("m2.hot_rounds_same_order", 1);
    }
    let barrier = Arc::new(Barrier::new(nthreads));
    let results: Arc<Mutex<Vec<(usize, Q, String)>>> = Arc::new(Mutex::new(vec![]));
    std::thread::scope(|s| {
      for t in 0..nthreads {
        let mut mine: Vec<Q> = list.clone();
        let mut trng = rng.fork(t as u64 + 1);
        if hot {
          let once = mine.clone();
          mine.extend(once.clone());
          mine.extend(once);
        } else {
          trng.shuffle(&mut mine);
          if !storm {
            mine.truncate(120);
          }
        }
        // a few refused requests in the middle of the traffic
        if t % 4 == 0 {
          for k in 0..3 {
            let at = trng.below(mine.len());
            mine.insert(at, refs[(t + k) % refs.len()].1.clone());
          }
        }
        let barrier = barrier.clone();
        let results = results.clone();
        s.spawn(move || {
          barrier.wait();
          let mut out = Vec::with_capacity(mine.len());
          for q in mine {
            let a = q.answer();
            out.push((t, q, a));
          }
          results.lock().unwrap().extend(out);
        });
      }
    });
    lhook::set_cache_gap_yields(0);
    let after = lhook::lunar_month_cache_stats();
    let res = results.lock().unwrap();
    let invalid: BTreeSet<Q> = refs.iter().map(|r| r.1.clone()).collect();
    // single-threaded cold answers of queries that are not in the pool (storm rounds); computed after
    // the round and followed by a reset so that they do not warm the cache for the next round
    let mut extra_cold: BTreeMap<Q, String> = BTreeMap::new();
    if storm {
      let stats_before = lhook::lunar_month_cache_stats();
      let _ = stats_before;
      for q in list.iter() {
        if !cold.contains_key(q) && !extra_cold.contains_key(q) {
          lhook::lunar_month_cache_reset();
          extra_cold.insert(q.clone(), q.answer());
        }
      }
      lhook::lunar_month_cache_reset();
    }
    log.ev(1);
    log.count("m2.rounds", 1);
    if yields > 0 {
      log.count("m2.rounds_with_the_injected_yield", 1);
    }
    let misses = after.2 - before.2;
    let new_keys = (after.0 as u64).saturating_sub(if cold_start { 0 } else { before.0 as u64 });
    let double = misses.saturating_sub(new_keys);
    total_double += double;
    log.count("m2.cache_misses", misses);
    log.count("m2.cache_hits", after.1 - before.1);
    log.count("m2.double_computes_observed", double);
    for (t, q, a) in res.iter() {
      log.ev(1);
      log.count("m2.answers_compared", 1);
      if invalid.contains(q) {
        if a != "REFUSED" {
          log.violate(format!("C10/refusal-accepted/{}", fnv(&q.show()) % 100000), "refused request (threads)", q.show(), a.clone(), "REFUSED".into());
        }
        continue;
      }
      let want = match cold.get(q) {
        Some(w) => w.clone(),
        None => extra_cold.get(q).cloned().unwrap_or_default(),
      };
      if *a != want {
        log.violate(
          format!("C10/threads/{:04}_{:02}_{}", r, t, fnv(&q.show()) % 100000),
          "answer under 16 concurrent threads",
          format!("round {} ({} start, {} yields between lookup and insert), thread {}", r, if cold_start { "cold" } else { "warm" }, yields, t),
          format!("{} -> {}", q.show(), a),
          format!("{} (single-threaded cold answer)", want),
        );
      }
    }
    log.nt_distinct(mix(r as u64, 0x3C10));
  }
  if total_double == 0 {
    log.harness_error("no double-compute was observed in any round: the race between lookup and insert was not exercised");
  }
  let p = locks_poisoned();
  if !p.is_empty() {
    log.note(format!("after the threaded rounds these locks carry the poison flag (calls recovered): {:?}", p));
  }
}

fn m5(cfg: &Cfg, log: &mut Log) {
  let c = cal();
  let mut rng = Rng::new(mix(cfg.seed, 0x5C10));
  let n = cfg.tier.pick(500, 20_000);
  for _ in 0..n {
    let day = loop {
      let d = rng.range(c.dn(30, 1, 1), c.dn(9990, 1, 1));
      if !(233..=243).contains(&c.date(d).0) {
        break d;
      }
    };
    let sod = rng.range(0, 86399);
    log.ev(1);
    log.count("m5.values", 1);
    let r = guard(|| {
      let l = sd_of_dn(day).get_lunar_day();
      let fresh1 = l.clone();
      let fresh2 = l.clone();
      // order A on the original
      let a1 = fmt_ymd(ymd(&l.get_solar_day()));
      let a2 = l.get_sixty_cycle_day().get_sixty_cycle().get_name();
      let warm = l.clone(); // memo filled
                            // order B on a clone taken before any derived call
      let b2 = fresh1.get_sixty_cycle_day().get_sixty_cycle().get_name();
      let b1 = fmt_ymd(ymd(&fresh1.get_solar_day()));
      // warm clone, and a never-touched clone
      let c1 = fmt_ymd(ymd(&warm.get_solar_day()));
      let c2 = warm.get_sixty_cycle_day().get_sixty_cycle().get_name();
      let d2 = fresh2.get_sixty_cycle_day().get_month().get_name();
      let d2w = warm.get_sixty_cycle_day().get_month().get_name();
      let h = LunarHour::from_ymd_hms(l.get_year(), l.get_month(), l.get_day(), (sod / 3600) as usize, ((sod % 3600) / 60) as usize, (sod % 60) as usize);
      let hf = h.clone();
      let e1 = format!("{}", h.get_solar_time());
      let e2 = h.get_sixty_cycle_hour().get_sixty_cycle().get_name();
      let e3 = h.get_eight_char().get_name();
      let f3 = hf.get_eight_char().get_name();
      let f2 = hf.get_sixty_cycle_hour().get_sixty_cycle().get_name();
      let f1 = format!("{}", hf.get_solar_time());
      // stepping from the warm values must give what a fresh construction of the target gives
      let k = (sod % 57) as isize - 28;
      let describe_day = |x: &LunarDay| {
        let v = x.get_sixty_cycle_day();
        format!("{} {} {} {} {}", fmt_lymd(lymd(x)), fmt_ymd(ymd(&x.get_solar_day())), fmt_ymd(ymd(&v.get_solar_day())), v.get_sixty_cycle().get_name(), x.get_duty().get_name())
      };
      let stepped_day = describe_day(&l.next(k));
      let fresh_day = describe_day(&sd_of_dn(day + k as i64).get_lunar_day());
      let describe_hour = |x: &LunarHour| {
        let v = x.get_sixty_cycle_hour();
        format!("{} {} {} {} {}", fmt_lymd(lymd(&x.get_lunar_day())), x.get_solar_time(), v.get_solar_time(), v.get_day().get_name(), x.get_eight_char().get_name())
      };
      let stepped_hour = describe_hour(&h.next(k));
      let fresh_hour = describe_hour(&st_of_abs(day * 86400 + sod + 7200 * k as i64).get_lunar_hour());
      // the day an hour hands out answers day-level questions alike before and after the hour has answered
      // hour-level ones (23:xx and term days included: the day's cycles turn with the civil day)
      let hq = LunarHour::from_ymd_hms(l.get_year(), l.get_month(), l.get_day(), if sod % 5 == 0 { 23 } else { (sod / 3600) as usize }, ((sod % 3600) / 60) as usize, (sod % 60) as usize);
      let day_before = {
        let d = hq.get_lunar_day();
        format!("{} {} {} {}", d.get_sixty_cycle_day().get_name(), d.get_duty().get_name(), d.get_twenty_eight_star().get_name(), d.get_twelve_star().get_name())
      };
      let _ = hq.get_sixty_cycle_hour();
      let _ = hq.get_twelve_star();
      let _ = hq.get_eight_char();
      let day_after = {
        let d = hq.get_lunar_day();
        format!("{} {} {} {}", d.get_sixty_cycle_day().get_name(), d.get_duty().get_name(), d.get_twenty_eight_star().get_name(), d.get_twelve_star().get_name())
      };
      // relations between a value that has answered questions and a never-touched value of the same date:
      // equal both ways, rendered alike, neither before nor after
      let cold_day = sd_of_dn(day).get_lunar_day();
      let cold_hour = LunarHour::from_ymd_hms(l.get_year(), l.get_month(), l.get_day(), (sod / 3600) as usize, ((sod % 3600) / 60) as usize, (sod % 60) as usize);
      let rel = (
        l == cold_day && cold_day == l && !(l != cold_day),
        l.to_string() == cold_day.to_string(),
        !l.is_before(cold_day.clone()) && !l.is_after(cold_day.clone()),
        h == cold_hour && cold_hour == h && !(h != cold_hour),
        h.to_string() == cold_hour.to_string(),
        !h.is_before(cold_hour.clone()) && !h.is_after(cold_hour.clone()),
        h.get_lunar_day() == cold_day && cold_hour.get_lunar_day() == l,
        h.get_solar_time().get_lunar_hour() == h && h.next(k).next(-k) == h && cold_hour.next(k) == h.next(k),
        l.next(k).next(-k) == l && cold_day.next(k) == l.next(k),
        l.get_sixty_cycle_day() == sd_of_dn(day).get_sixty_cycle_day() && h.get_sixty_cycle_hour() == cold_hour.get_solar_time().get_sixty_cycle_hour() && day_before == day_after,
      );
      let rel_ok = rel == (true, true, true, true, true, true, true, true, true, true);
      ((a1, a2), (b1, b2), (c1, c2), d2 == d2w && stepped_day == fresh_day && stepped_hour == fresh_hour, (e1, e2, e3), (f1, f2, f3), rel_ok, format!("{:?}", rel))
    });
    match r {
      Ok((a, b, cc, d, e, f, rel_ok, rel)) => {
        if !rel_ok {
          log.violate(format!("C10/memo-relations/{}", cal::fmt_dn(day)), "equality, rendering and order between a value that has answered questions and a never-touched one", cal::fmt_dn(day), rel, "all true: (day ==, day rendering, day neither before nor after, hour ==, hour rendering, hour order, day of hour, hour round trips, day round trips, sexagenary views == and the hour's day answering alike before and after hour-level questions)".into());
        }
        if a != b || a != cc || !d || e != f {
          log.violate(format!("C10/memo/{}", cal::fmt_dn(day)), "per-value memos", cal::fmt_dn(day), format!("{:?} {:?} {:?} {} {:?} {:?}", a, b, cc, d, e, f), "identical answers in any call order, on clones taken before and after the first derived call, and after stepping from a value with filled memos".into());
        }
      }
      Err(msg) => log.violate(format!("C10/memo/{}", cal::fmt_dn(day)), "per-value memos", cal::fmt_dn(day), format!("panic: {}", msg), "no panic".into()),
    }
  }
}

/// M5b: stems, branches and pillars.  The attributes of `x.next(n)` do not depend on whether x answered
/// questions before it was stepped: warm source, cold source and a constructed target agree for every x and n.
fn m5b(log: &mut Log) {
  use tyme4rs::tyme::sixtycycle::{EarthBranch, HeavenStem, SixtyCycle};
  let pillar = |q: &SixtyCycle| format!("{} {} {} {} {}", q.get_name(), q.get_ten().get_name(), q.get_sound().get_name(), q.get_heaven_stem().get_name(), q.get_extra_earth_branches().iter().map(|b| b.get_name()).collect::<Vec<_>>().join(""));
  let stem = |q: &HeavenStem| format!("{} {} {} {} {}", q.get_name(), q.get_element().get_name(), q.get_direction().get_name(), q.get_combine().get_name(), q.get_joy_direction().get_name());
  let branch = |q: &EarthBranch| format!("{} {} {} {} {}", q.get_name(), q.get_element().get_name(), q.get_zodiac().get_name(), q.get_opposite().get_name(), q.get_hide_heaven_stem_main().get_name());
  let r = guard(|| {
    let mut bad: Vec<(String, String, String)> = vec![];
    let mut n_pairs = 0u64;
    for n in -130i64..=130 {
      for i in 0..60i64 {
        let cold = SixtyCycle::from_index(i as isize).next(n as isize);
        let src = SixtyCycle::from_index(i as isize);
        let _ = pillar(&src);
        let warm = src.next(n as isize);
        let made = SixtyCycle::from_index((i + n).rem_euclid(60) as isize);
        let (a, b, c) = (pillar(&warm), pillar(&cold), pillar(&made));
        n_pairs += 1;
        if a != b || a != c {
          bad.push((format!("pillar_{}_step_{:+}", i, n), format!("warm source: {} / cold source: {}", a, b), c));
        }
      }
      for i in 0..10i64 {
        let src = HeavenStem::from_index(i as isize);
        let _ = stem(&src);
        let (a, b, c) = (stem(&src.next(n as isize)), stem(&HeavenStem::from_index(i as isize).next(n as isize)), stem(&HeavenStem::from_index((i + n).rem_euclid(10) as isize)));
        n_pairs += 1;
        if a != b || a != c {
          bad.push((format!("stem_{}_step_{:+}", i, n), format!("warm source: {} / cold source: {}", a, b), c));
        }
      }
      for i in 0..12i64 {
        let src = EarthBranch::from_index(i as isize);
        let _ = branch(&src);
        let (a, b, c) = (branch(&src.next(n as isize)), branch(&EarthBranch::from_index(i as isize).next(n as isize)), branch(&EarthBranch::from_index((i + n).rem_euclid(12) as isize)));
        n_pairs += 1;
        if a != b || a != c {
          bad.push((format!("branch_{}_step_{:+}", i, n), format!("warm source: {} / cold source: {}", a, b), c));
        }
      }
    }
    (bad, n_pairs)
  });
  match r {
    Ok((bad, n)) => {
      log.ev(n);
      log.count("m5.cyclic_value_step_pairs", n);
      for (k, o, e) in bad {
        log.violate(format!("C10/memo-cyclic/{}", k), "attributes of a stepped stem / branch / pillar, source warm or cold", k.clone(), o, e);
      }
    }
    Err(msg) => log.violate("C10/memo-cyclic/panic".into(), "attributes of a stepped stem / branch / pillar", "sweep".into(), format!("panic: {}", msg), "no panic".into()),
  }
}

/// M8: storms.  A small hot set of related queries (the same question about years 2, 400, 512, 1024, 4096 apart, the
/// same day again, neighbouring days, holiday steps from different years, both genders of one birth) is answered
/// first one query at a time, each as the only call of a fresh thread; then all worker threads answer the set over
/// and over at the same time, each in its own order.  Every answer must equal the reference: a memo whose key and
/// value do not change together is caught when two threads meet in it.
fn m8(cfg: &Cfg, log: &mut Log) {
  let c = cal();
  let groups = cfg.tier.pick(27usize, 150usize);
  let rounds = cfg.tier.pick(40usize, 80usize);
  let threads = crate::util::threads().max(2);
  let mut rng = Rng::new(mix(cfg.seed, 0x8C10));
  for g in 0..groups {
    let n = wide_day(&mut rng).clamp(c.dn(1100, 1, 1), c.dn(8800, 1, 1));
    let (y, m, d) = c.date(n);
    let same_md = |yy: i64| -> i64 {
      let dd = if cal::exists(yy, m, d) { d } else { 1 };
      c.dn(yy, m, dd)
    };
    let years: Vec<i64> = [0i64, 1, 2, -2, 400, -512, 512, 1024, -1024, 4096].iter().map(|k| y + k).filter(|yy| (30..=9900).contains(yy) && !(1560..=1600).contains(yy) && !(230..=245).contains(yy)).collect();
    let mut hot: Vec<Q> = vec![];
    let sod = rng.range(0, 86399);
    match g % 9 {
      0 => {
        let i = rng.range(0, 23);
        for yy in &years {
          hot.push(Q::Term(*yy, i));
          hot.push(Q::Term(*yy, (i + 1) % 24));
        }
      }
      1 => {
        for yy in &years {
          hot.push(Q::TermDay(same_md(*yy)));
          hot.push(Q::Series(c.dn(*yy, 12, 25)));
          hot.push(Q::Series(c.dn(*yy, 6, 25)));
        }
      }
      2 => {
        for yy in &years {
          hot.push(Q::Almanac(same_md(*yy)));
        }
        hot.push(Q::Almanac(n + 1));
        hot.push(Q::Almanac(n + 2));
      }
      3 => {
        // hours of a few days, each day asked at several hours
        for k in 0..4i64 {
          for h in [1i64, 9, 23] {
            hot.push(Q::HourAlmanac((n + k) * 86400 + h * 3600 + sod % 3600));
            hot.push(Q::EightChar((n + k) * 86400 + h * 3600 + sod % 3600));
          }
        }
      }
      4 => {
        for yy in 2002..=2024i64 {
          if yy % 3 == (g as i64 / 9) % 3 {
            hot.push(Q::HolidayNext(c.dn(yy, 5, 1), 1));
            hot.push(Q::HolidayNext(c.dn(yy, 10, 1), -1));
            hot.push(Q::HolidayNext(c.dn(yy, 10, 1), 2));
          }
        }
      }
      5 => {
        for yy in &years {
          hot.push(Q::YearMonths(*yy));
          hot.push(Q::LeapMonth(*yy));
          hot.push(Q::Festival(*yy, 4));
        }
      }
      6 => {
        for yy in &years {
          let a = same_md(*yy) * 86400 + sod;
          hot.push(Q::ChildLimit(a, true));
          hot.push(Q::ChildLimit(a, false));
        }
      }
      7 => {
        for yy in &years {
          hot.push(Q::SolarToLunar(same_md(*yy)));
          hot.push(Q::SixtyDay(same_md(*yy)));
          hot.push(Q::Week(same_md(*yy), g as i64 % 7));
        }
      }
      _ => {
        for yy in &years {
          hot.push(Q::Month(*yy, m));
          hot.push(Q::MonthNext(*yy, m, 1));
          hot.push(Q::LunarToSolar(*yy, m, d.min(29)));
        }
      }
    }
    hot.sort();
    hot.dedup();
    if hot.len() < 2 {
      continue;
    }
    // references: one query at a time, each alone on a fresh thread
    let mut reference: Vec<String> = Vec::with_capacity(hot.len());
    for q in &hot {
      let q2 = q.clone();
      reference.push(std::thread::spawn(move || q2.answer()).join().unwrap_or_else(|_| "THREAD-PANIC".into()));
    }
    let bad: Mutex<Vec<(usize, String)>> = Mutex::new(vec![]);
    let barrier = Barrier::new(threads);
    let compared = std::sync::atomic::AtomicU64::new(0);
    std::thread::scope(|sc| {
      for t in 0..threads {
        let (hot, reference, bad, barrier, compared) = (&hot, &reference, &bad, &barrier, &compared);
        let seed = cfg.seed;
        sc.spawn(move || {
          let mut r = Rng::new(mix(seed, (g * 64 + t) as u64 ^ 0x9C10));
          let mut order: Vec<usize> = (0..hot.len()).collect();
          barrier.wait();
          for _ in 0..rounds {
            r.shuffle(&mut order);
            for &k in &order {
              // a thread prefers "its own" queries, so that hits and misses of a one-slot memo alternate
              let k = if r.chance(1, 2) { (t + k * threads) % hot.len() } else { k };
              let got = hot[k].answer();
              compared.fetch_add(1, std::sync::atomic::Ordering::Relaxed);
              if got != reference[k] {
                let mut b = bad.lock().unwrap();
                if b.len() < 5 {
                  b.push((k, got));
                }
              }
            }
          }
        });
      }
    });
    log.ev(1);
    log.nt(1);
    log.count("m8.storm_groups", 1);
    log.count("m8.answers_compared", compared.load(std::sync::atomic::Ordering::Relaxed));
    for (k, got) in bad.into_inner().unwrap() {
      log.violate(format!("C10/storm/{}", fnv(&hot[k].show()) % 1_000_000), "answer while other threads ask related queries", format!("{} among {} hot queries on {} threads", hot[k].show(), hot.len(), threads), got, format!("{} (alone on a fresh thread)", reference[k]));
    }
  }
}

/// M6: the very first library call of a fresh thread (thread-local or per-thread lazily initialised
/// state has its initial value) must answer like a warm thread.  Range extremes are included because
/// an "empty" initial value tends to coincide with the first element of a range.
fn m6(cfg: &Cfg, pool: &[Q], cold: &BTreeMap<Q, String>, log: &mut Log) {
  let c = cal();
  let mut qs: Vec<Q> = vec![
    Q::Month(0, 1), Q::Month(0, 2), Q::Month(0, 12), Q::Month(1, 1), Q::Month(9999, 12), Q::Month(9999, 1), Q::YearMonths(0), Q::YearMonths(1), Q::YearMonths(9999),
    Q::LunarToSolar(0, 11, 18), Q::LunarToSolar(9999, 12, 2), Q::LunarToSolar(0, 12, 1), Q::SolarToLunar(c.dn(9999, 12, 31)), Q::SolarToLunar(c.dn(30, 1, 1)), Q::SolarToLunar(c.dn(2000, 1, 1)),
    Q::SixtyDay(c.dn(30, 1, 1)), Q::SixtyDay(c.dn(9998, 12, 31)), Q::Festival(30, 0), Q::Festival(9998, 12), Q::EightChar(c.dn(30, 1, 1) * 86400), Q::EightChar(c.dn(9998, 12, 31) * 86400 + 86399),
    Q::ChildLimit(c.dn(30, 6, 1) * 86400, true), Q::ChildLimit(c.dn(9900, 6, 1) * 86400, false), Q::MonthNext(0, 1, 1), Q::MonthNext(9999, 12, -1),
  ];
  let mut rng = Rng::new(mix(cfg.seed, 0x6C10));
  for _ in 0..cfg.tier.pick(60, 600) {
    qs.push(rng.pick(pool).clone());
  }
  for q in qs {
    // warm-thread cold-cache reference (this thread has made thousands of calls already)
    let want = match cold.get(&q) {
      Some(a) => a.clone(),
      None => {
        lhook::lunar_month_cache_reset();
        q.answer()
      }
    };
    lhook::lunar_month_cache_reset();
    let q2 = q.clone();
    let got = std::thread::spawn(move || q2.answer()).join().unwrap_or_else(|_| "THREAD-PANIC".into());
    log.ev(1);
    log.nt(1);
    log.count("m6.first_calls_on_a_fresh_thread", 1);
    if got != want {
      log.violate(format!("C10/fresh-thread/{}", fnv(&q.show()) % 100000), "first call on a fresh thread", q.show(), got, format!("{} (same query on a warm thread, cold cache)", want));
    }
  }
}

/// digest of the answers of the query list in the given order (fresh process)
fn digest_in_order(qs: &[Q], order: &[usize], threaded: bool) -> Vec<(usize, u64)> {
  let mut out: Vec<(usize, u64)> = Vec::with_capacity(qs.len());
  if threaded {
    let res: Mutex<Vec<(usize, u64)>> = Mutex::new(vec![]);
    std::thread::scope(|s| {
      for t in 0..8usize {
        let res = &res;
        s.spawn(move || {
          let mut mine = vec![];
          for (k, &i) in order.iter().enumerate() {
            if k % 8 == t {
              mine.push((i, fnv(&qs[i].answer())));
            }
          }
          res.lock().unwrap().extend(mine);
        });
      }
    });
    out = res.into_inner().unwrap();
  } else {
    for &i in order {
      out.push((i, fnv(&qs[i].answer())));
    }
  }
  out.sort();
  out
}

fn order_for(n: usize, seed: u64, which: u64) -> Vec<usize> {
  let mut v: Vec<usize> = (0..n).collect();
  match which {
    0 => {}
    1 => v.reverse(),
    _ => Rng::new(mix(seed, which)).shuffle(&mut v),
  }
  v
}

const M4_QUERIES: usize = 2000;
const M4_RELATED: usize = 4000;

/// the list every fresh process answers: the pool, the refused requests, and walks over related queries of the
/// whole API surface (so that in listed order related queries are neighbours and in shuffled orders they are not)
fn m4_list(seed: u64) -> Vec<Q> {
  let mut qs = pool(seed, M4_QUERIES);
  // refused requests are part of the list: they must not disturb the answers around them
  for (k, r) in refusals().iter().enumerate() {
    qs.insert((k * 173) % qs.len(), r.1.clone());
  }
  qs.extend(related_list(seed ^ 0x44, M4_RELATED));
  qs
}

/// `vcheck --child <seed> <which> <threaded>`: answer the list in order `which`, print digests
pub fn child_main(args: &[String]) {
  crate::util::silence_panics();
  let seed: u64 = args.first().and_then(|s| s.parse().ok()).unwrap_or(1);
  let which: u64 = args.get(1).and_then(|s| s.parse().ok()).unwrap_or(0);
  let threaded = args.get(2).map(|s| s == "1").unwrap_or(false);
  let qs = m4_list(seed);
  let order = order_for(qs.len(), seed, which);
  let d = digest_in_order(&qs, &order, threaded);
  let mut all = 0xC10u64;
  for (i, h) in &d {
    println!("A {} {:016x}", i, h);
    all = mix(all, mix(*i as u64, *h));
  }
  println!("DIGEST {:016x} {}", all, d.len());
}

fn m4(cfg: &Cfg, log: &mut Log) {
  let exe = std::env::current_exe().map(|p| p.to_string_lossy().to_string()).unwrap_or_else(|_| cfg.exe.clone());
  let orders: Vec<(u64, bool)> = match cfg.tier {
    Tier::Quick => vec![(0, false), (1, false), (2, false), (3, true)],
    Tier::Thorough => vec![(0, false), (1, false), (2, false), (3, false), (4, false), (5, false), (6, false), (7, false), (8, true), (9, true)],
  };
  let handles: Vec<_> = orders
    .iter()
    .map(|(w, th)| {
      let exe = exe.clone();
      let root = cfg.root.clone();
      let (w, th, seed) = (*w, *th, cfg.seed);
      let fallback = format!("{}/harness/target/release/vcheck", root);
      std::thread::spawn(move || {
        let run = |e: &str| std::process::Command::new(e).arg("--child").arg(seed.to_string()).arg(w.to_string()).arg(if th { "1" } else { "0" }).output();
        // the path of the running binary can disappear when the harness is rebuilt meanwhile: fall back to the
        // built binary under the root
        match run(&exe) {
          Err(_) => run(&fallback),
          ok => ok,
        }
      })
    })
    .collect();
  let mut tables: Vec<(u64, bool, BTreeMap<usize, String>)> = vec![];
  for (h, (w, th)) in handles.into_iter().zip(orders.iter()) {
    match h.join() {
      Ok(Ok(out)) if out.status.success() => {
        let text = String::from_utf8_lossy(&out.stdout);
        let mut m = BTreeMap::new();
        for line in text.lines() {
          let p: Vec<&str> = line.split(' ').collect();
          if p.len() == 3 && p[0] == "A" {
            if let Ok(i) = p[1].parse::<usize>() {
              m.insert(i, p[2].to_string());
            }
          }
        }
        tables.push((*w, *th, m));
      }
      other => log.harness_error(&format!("fresh-process child (order {}) failed: {:?}", w, other.map(|r| r.map(|o| o.status))).chars().take(300).collect::<String>()),
    }
  }
  if tables.len() < 2 {
    log.harness_error("fewer than two fresh-process answer tables");
    return;
  }
  let qs = m4_list(cfg.seed);
  let (w0, _, base) = &tables[0];
  log.count("m4.fresh_processes", tables.len() as u64);
  log.count("m4.queries_per_process", base.len() as u64);
  for (w, th, m) in tables.iter().skip(1) {
    log.ev(1);
    log.nt(1);
    if m.len() != base.len() {
      log.harness_error(&format!("child {} answered {} queries, child {} answered {}", w, m.len(), w0, base.len()));
      continue;
    }
    for (i, a) in m {
      log.ev(1);
      log.count("m4.answers_compared", 1);
      if base.get(i) != Some(a) {
        let q = qs.get(*i).map(|q| q.show()).unwrap_or_default();
        log.violate(format!("C10/fresh-process/{:05}", i), "answer in a fresh process", format!("query #{} {} in order {}{} vs order {}", i, q, w, if *th { " (8 threads)" } else { "" }, w0), a.clone(), base.get(i).cloned().unwrap_or_default());
      }
    }
  }
}

fn m3_miri(cfg: &Cfg, log: &mut Log) {
  let seeds = 16u64;
  let dir = format!("{}/miri", cfg.root);
  // one build first (sequential), then the seeds in parallel processes
  let dir2 = dir.clone();
  let run = move |seed: u64| {
    let dir = dir2.clone();
    std::process::Command::new("cargo")
      .args(["+nightly", "miri", "run", "--offline", "--quiet", "--manifest-path"])
      .arg(format!("{}/Cargo.toml", dir))
      .env("MIRIFLAGS", format!("-Zmiri-disable-isolation -Zmiri-seed={}", seed))
      .env("CARGO_NET_OFFLINE", "true")
      .env("CARGO_TARGET_DIR", format!("{}/target", dir))
      .output()
  };
  let first = run(0);
  let classify = |seed: u64, out: std::io::Result<std::process::Output>, log: &mut Log| match out {
    Ok(o) => {
      let so = String::from_utf8_lossy(&o.stdout).to_string();
      let se = String::from_utf8_lossy(&o.stderr).to_string();
      if o.status.success() && so.contains("MIRI-OK") {
        log.ev(1);
        log.nt(1);
        log.count("m3.miri_seeds_clean", 1);
        if let Some(l) = so.lines().find(|l| l.starts_with("MIRI-OK")) {
          log.sample(|| format!("miri seed {}: {}", seed, l));
        }
      } else if se.contains("Undefined Behavior") || se.contains("data race") || so.contains("MIRI-MISMATCH") {
        let msg: String = se.lines().chain(so.lines()).filter(|l| l.contains("Undefined Behavior") || l.contains("data race") || l.contains("MIRI-MISMATCH") || l.contains("error")).take(4).collect::<Vec<_>>().join(" | ");
        log.violate(format!("C10/miri/seed-{:02}", seed), "Miri interpretation of the threaded cache workload", format!("seed {}", seed), msg.chars().take(400).collect(), "no undefined behaviour, no data race, answers equal to the cold answers".into());
      } else {
        log.harness_error(&format!("miri seed {} did not run to a verdict (status {:?}): {}", seed, o.status.code(), se.lines().rev().take(3).collect::<Vec<_>>().join(" | ")).chars().take(400).collect::<String>());
      }
    }
    Err(e) => log.harness_error(&format!("cannot start cargo miri: {}", e)),
  };
  classify(0, first, log);
  let handles: Vec<_> = (1..seeds)
    .map(|s| {
      let run = run.clone();
      std::thread::spawn(move || (s, run(s)))
    })
    .collect();
  for h in handles {
    if let Ok((s, out)) = h.join() {
      classify(s, out, log);
    }
  }
  log.floor("m3.miri_seeds_clean", 8);
}

pub fn run(cfg: &Cfg) -> (Log, Meta) {
  let mut log = Log::new();
  if let Err(e) = cal::self_test() {
    log.harness_error(&format!("oracle self-test failed: {}", e));
  }
  let pool_size = cfg.tier.pick(400usize, 1500usize);
  let p = pool(cfg.seed, pool_size);
  let cold = cold_answers(&p);
  // every pool query is valid: its cold answer is not a refusal
  for (q, a) in &cold {
    if a == "REFUSED" {
      log.violate(format!("C10/cold-refused/{}", fnv(&q.show()) % 100000), "cold answer of a valid query", q.show(), "REFUSED".into(), "an answer".into());
    }
  }
  log.count("pool.distinct_valid_queries", p.len() as u64);
  log.count("pool.refusal_kinds", refusals().len() as u64);
  m1(cfg, &p, &cold, &mut log);
  m2(cfg, &p, &cold, &mut log);
  m5(cfg, &mut log);
  m5b(&mut log);
  m6(cfg, &p, &cold, &mut log);
  m7(cfg, &mut log);
  m8(cfg, &mut log);
  m4(cfg, &mut log);
  if cfg.tier == Tier::Thorough {
    m3_miri(cfg, &mut log);
  }
  log.floor("m1.collision_pair_histories", 50);
  log.floor("m1.short_histories_with_an_injected_refusal", cfg.tier.pick(100, 3_000));
  log.floor("m1.valid_answers_after_a_refusal", cfg.tier.pick(1_000, 50_000));
  log.floor("m1.long_histories", cfg.tier.pick(30, 500));
  log.floor("m2.rounds", cfg.tier.pick(10, 100));
  log.floor("m2.double_computes_observed", cfg.tier.pick(20, 300));
  log.floor("m2.answers_compared", cfg.tier.pick(10_000, 200_000));
  log.floor("m4.fresh_processes", 3);
  log.floor("m4.answers_compared", 4_000);
  log.floor("m5.values", cfg.tier.pick(100, 5_000));
  log.floor("m5.cyclic_value_step_pairs", 20_000);
  log.floor("m6.first_calls_on_a_fresh_thread", 50);
  log.floor("m7.answers_compared", cfg.tier.pick(40_000, 400_000));
  log.floor("m8.storm_groups", cfg.tier.pick(24, 120));
  log.floor("m8.answers_compared", cfg.tier.pick(150_000, 2_000_000));
  let meta = Meta {
    rule: format!(
      "pool of {} distinct valid queries (lunar months incl. the digit-colliding label pairs (Y,11)/(10Y+1,1), (Y,12)/(10Y+1,2), year month lists, both conversions, sexagenary days, festivals, eight characters, child limits, month stepping) and {} kinds of refused request; reference = cold answer after the guarded cache reset. M1: every collision pair in 4 orders; refusal of every kind at every position of {} short histories (length 1..6){}; {} random histories of 50..400 queries (30% collision labels, 10% refusals) - every answer equals its cold answer (lock poison flags are reported as notes, not judged). M2: {} rounds of 16 barrier-released threads on overlapping shuffled slices (120 of 160 queries each, refusals in every 4th thread), alternating cold/warm start and 0/50 injected yields between cache lookup and insert; double-computes counted from the hook (a run with none is inconclusive). M4: {} fresh processes answer the same 6,011-query list (pool, refusals, and 4,000 queries laid out as walks over related queries of the wider API surface: terms, term days, weeks, Julian dates, festivals by index and date, holidays, day and hour almanac, term-anchored series, leap months, pillars, clock arithmetic) in listed, reversed and shuffled orders (the last ones on 8 threads). M7: {} queries of the same wider surface laid out as single-thread walks over related queries (related day / year / instant / index, or another question about the same day); every answer equals the answer the same query gets as the only call of a fresh thread. M8: storms - hot sets of related queries (the same question about years 1, 2, 400, 512, 1024, 4096 apart, several hours of a few days, holiday steps from different years, both genders of one birth) answered first one at a time on fresh threads, then by all worker threads at once over and over, each in its own order. M5: per-value memos of LunarDay/LunarHour on clones taken before/after the first derived call, relations (==, rendering, order, round trips) between warm and never-touched values, the day an hour hands out before and after hour-level questions; stems, branches and pillars stepped by every n in -130..130 from a warm source, a cold source and constructed directly. M6: 25 range-extreme queries and a sample of the pool, each as the very first library call of a fresh thread on a cold cache. {} distinct_nontrivial = distinct histories, rounds, process pairs.",
      p.len(),
      refusals().len(),
      cfg.tier.pick(12, 120),
      if cfg.tier == Tier::Quick { " (every third combination)" } else { "" },
      cfg.tier.pick(300, 5_000),
      cfg.tier.pick(20, 300),
      cfg.tier.pick(4, 10),
      cfg.tier.pick(40_000, 400_000),
      if cfg.tier == Tier::Thorough { "M3: 16 Miri seeds of a 3-thread colliding-key workload with one refused request." } else { "" }
    ),
    assumptions: vec![
      "interleavings are those the OS scheduler (and, in thorough, 16 Miri seeds) produced; the evidence reports the double-computes observed".into(),
      "the reset hook empties the lunar month cache only; lazy-static initialisation order and anything else process-wide is covered by the fresh-process monitor".into(),
      "day-level queries avoid AD < 30 and 233-243 (listed findings of C02/C03) so that every pool query has a cold answer".into(),
    ],
    exhaustive: false,
  };
  (log, meta)
}
