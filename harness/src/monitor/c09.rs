//! C09 — hour pillar, 23:00 day roll-over and the eight-character round trip.
use crate::api::*;
use crate::log::Log;
use crate::model::cal::{self, cal, day_pillar, FIRST, LAST};
use crate::model::ganzhi::{hour_pillar, pillar_name};
use crate::model::pillars::{double_hour_window, four_pillars, window_has_jie};
use crate::model::terms::terms;
use crate::util::{guard, mix, par_range, Rng};
use crate::{Cfg, Meta};
use tyme4rs::tyme::eightchar::provider::{DefaultEightCharProvider, EightCharProvider, LunarSect2EightCharProvider};
use tyme4rs::tyme::eightchar::EightChar;

type V = Vec<(String, String, String)>;

fn ec_idx(e: &EightChar) -> [i64; 4] {
  [e.get_year().get_index() as i64, e.get_month().get_index() as i64, e.get_day().get_index() as i64, e.get_hour().get_index() as i64]
}

fn names(p: [i64; 4]) -> String {
  format!("{} {} {} {}", pillar_name(p[0]), pillar_name(p[1]), pillar_name(p[2]), pillar_name(p[3]))
}

/// exhaustive (day pillar, hour) table on one civil day
fn hour_table(n: i64, log: &mut Log) {
  let dp = day_pillar(n);
  for h in 0..24i64 {
    for mi in [0i64, 59] {
      let a = n * 86400 + h * 3600 + mi * 60 + if mi == 59 { 59 } else { 0 };
      let key = format!("{}_{:02}{:02}", pillar_name(dp), h, mi);
      log.ev(1);
      log.count("table.day_pillar_hour_cells", 1);
      if h == 23 || h == 0 {
        log.nt(1);
      }
      let branch = ((h + 1) / 2) % 12;
      let rolled = if h == 23 { (dp + 1) % 60 } else { dp };
      let want_hp = hour_pillar(rolled % 10, branch);
      let r = guard(|| {
        let mut out: V = vec![];
        let st = st_of_abs(a);
        let lh = st.get_lunar_hour();
        let sh = st.get_sixty_cycle_hour();
        let lhp = lh.get_sixty_cycle().get_index() as i64;
        let shp = sh.get_sixty_cycle().get_index() as i64;
        if lhp != want_hp {
          out.push((format!("C09/hour-pillar-lunar/{}", key), pillar_name(lhp), pillar_name(want_hp)));
        }
        if shp != want_hp {
          out.push((format!("C09/hour-pillar-sixty/{}", key), pillar_name(shp), pillar_name(want_hp)));
        }
        if lhp % 12 != branch {
          out.push((format!("C09/hour-branch/{}", key), format!("{}", lhp % 12), format!("{}", branch)));
        }
        let sd = sh.get_day().get_index() as i64;
        if sd != rolled {
          out.push((format!("C09/day-roll-sixty/{}", key), pillar_name(sd), pillar_name(rolled)));
        }
        // the lunar day's own pillar is never rolled
        let ld = lh.get_lunar_day().get_sixty_cycle().get_index() as i64;
        if ld != dp {
          out.push((format!("C09/lunar-day-pillar/{}", key), pillar_name(ld), pillar_name(dp)));
        }
        if (lh.get_index_in_day() as i64) % 12 != branch || sh.get_index_in_day() as i64 != branch {
          out.push((format!("C09/index-in-day/{}", key), format!("lunar {} sixty {}", lh.get_index_in_day(), sh.get_index_in_day()), format!("{} (mod 12)", branch)));
        }
        let want_name = format!("{}时", crate::model::ganzhi::BRANCHES[branch as usize]);
        if tyme4rs::tyme::Culture::get_name(&lh) != want_name {
          out.push((format!("C09/hour-name/{}", key), tyme4rs::tyme::Culture::get_name(&lh), want_name));
        }
        out
      });
      match r {
        Ok(v) => {
          for (sig, o, e) in v {
            log.violate(sig, "hour table", fmt_abs(a), o, e);
          }
        }
        Err(msg) => log.violate(format!("C09/panic-table/{}", key), "hour table", fmt_abs(a), format!("panic: {}", msg), "no panic".into()),
      }
    }
  }
}

fn random_instant(rng: &mut Rng) -> i64 {
  let mut a = random_instant_raw(rng);
  // the 160 reform-era days are a listed finding of C02/C07 (wrong lunar label -> wrong day pillar); the
  // inverse search starts from the month's Jie day, so the 32 days after such a day are avoided as well
  while cal::reform_era_near(a.div_euclid(86400)) {
    a += 97 * 86400;
  }
  a
}

fn random_instant_raw(rng: &mut Rng) -> i64 {
  let c = cal();
  let lo = c.dn(1, 2, 10) * 86400; // after Lichun of AD 1: sexagenary year 0 cannot be searched (year 0 is not representable)
  let hi = c.dn(9998, 12, 31) * 86400 + 86399;
  match rng.below(8) {
    0 => {
      // late Zi hour and the hour before/after
      let n = rng.range(lo / 86400, hi / 86400);
      n * 86400 + rng.range(22 * 3600, 86399 + 3600)
    }
    1 => {
      // around a Jie or Lichun instant
      let t = terms();
      let k = 24 * rng.range(2, 9997) as usize + *rng.pick(&[1usize, 3, 3, 5, 23]);
      t.v[k].sec + rng.range(-7200, 7200)
    }
    2 => {
      // the seams of a civil year: the six days either side of 1 January, where the lunar year of a day and the
      // civil year relate in all the ways they can
      let n = c.year_first(rng.range(2, 9998)) + rng.range(-6, 5);
      (n * 86400 + rng.range(0, 86399)).clamp(lo, hi)
    }
    _ => rng.range(lo, hi),
  }
}

fn composition(i: usize, cfg: &Cfg, log: &mut Log) {
  let mut rng = Rng::new(mix(cfg.seed, i as u64 ^ 0xC09));
  let a = random_instant(&mut rng);
  let want = match four_pillars(a, false) {
    Some(w) => w,
    None => return,
  };
  let want2 = four_pillars(a, true).unwrap();
  let (wlo, whi) = double_hour_window(a);
  if window_has_jie(a - 2, a + 2) {
    log.count("compose.skipped_within_2s_of_a_jie", 1);
    return;
  }
  log.ev(1);
  log.count("compose.instants", 1);
  log.nt_distinct(a as u64);
  if a.rem_euclid(86400) >= 23 * 3600 {
    log.count("compose.late_zi_instants", 1);
  }
  let _ = (wlo, whi);
  let key = || fmt_abs(a);
  let r = guard(|| {
    let mut out: V = vec![];
    let st = st_of_abs(a);
    let lh = st.get_lunar_hour();
    let sh = st.get_sixty_cycle_hour();
    let four = [sh.get_year().get_index() as i64, sh.get_month().get_index() as i64, sh.get_day().get_index() as i64, sh.get_sixty_cycle().get_index() as i64];
    let e1 = ec_idx(&lh.get_eight_char());
    let e2 = ec_idx(&sh.get_eight_char());
    let e3 = ec_idx(&DefaultEightCharProvider::new().get_eight_char(lh.clone()));
    let e4 = ec_idx(&LunarSect2EightCharProvider::new().get_eight_char(lh.clone()));
    if four != want {
      out.push((format!("C09/four-pillars/{}", key()), names(four), names(want)));
    }
    if e1 != four || e2 != four || e3 != four {
      out.push((format!("C09/eight-char-composition/{}", key()), format!("lunar-hour {} / sixty-hour {} / default provider {}", names(e1), names(e2), names(e3)), format!("the four pillars {}", names(four))));
    }
    if e4 != want2 {
      out.push((format!("C09/eight-char-sect2/{}", key()), names(e4), format!("{} (day pillar not rolled)", names(want2))));
    }
    // the name form round-trips through EightChar::new
    let e = lh.get_eight_char();
    let by_name = EightChar::new(&pillar_name(e1[0]), &pillar_name(e1[1]), &pillar_name(e1[2]), &pillar_name(e1[3]));
    if ec_idx(&by_name) != e1 || tyme4rs::tyme::Culture::get_name(&by_name) != tyme4rs::tyme::Culture::get_name(&e) {
      out.push((format!("C09/eight-char-names/{}", key()), tyme4rs::tyme::Culture::get_name(&by_name), tyme4rs::tyme::Culture::get_name(&e)));
    }
    out
  });
  match r {
    Ok(v) => {
      for (sig, o, e) in v {
        log.violate(sig, "eight characters of an instant", key(), o, e);
      }
    }
    Err(msg) => log.violate(format!("C09/panic-compose/{}", key()), "eight characters of an instant", key(), format!("panic: {}", msg), names(want)),
  }
  log.sample(|| format!("{} -> {} (sect2 day {})", key(), names(want), pillar_name(want2[2])));
}

/// a lunar hour that has already answered questions is stepped by n double-hours (chains of 1..3 steps, inside the
/// lunar day and across midnight / month ends); the eight characters, the instant-level view and the civil instant
/// of the stepped value must be those of the instant 7200*n seconds later, whatever the source had memoised
fn stepped(i: usize, cfg: &Cfg, log: &mut Log) {
  use tyme4rs::tyme::Tyme;
  let mut rng = Rng::new(mix(cfg.seed, i as u64 ^ 0x4C09));
  let a0 = random_instant(&mut rng);
  let warm = rng.below(8) as u64;
  let steps: Vec<i64> = (0..rng.range(1, 3)).map(|_| if rng.below(3) == 0 { rng.range(-40, 40) } else { rng.range(-11, 11) }).collect();
  let key = || format!("{}_warm{}_steps{:?}", fmt_abs(a0), warm, steps);
  let r = guard(|| {
    let mut out: V = vec![];
    let mut seen = 0u64;
    let mut late = 0u64;
    let mut a = a0;
    let mut h = st_of_abs(a0).get_lunar_hour();
    for (k, n) in steps.iter().enumerate() {
      // the source answers some questions first (which ones depends on the draw)
      match (warm + k as u64) % 8 {
        0 => {}
        1 => {
          let _ = h.get_sixty_cycle_hour();
        }
        2 => {
          let _ = h.get_twelve_star();
        }
        3 => {
          let _ = h.get_solar_time();
        }
        4 => {
          let _ = h.get_eight_char();
          let _ = h.get_lunar_day().get_sixty_cycle_day();
        }
        5 => {
          let _ = h.get_lunar_day().get_solar_day();
          let _ = h.get_sixty_cycle_hour();
        }
        6 => {
          let _ = h.get_recommends();
          let _ = h.get_solar_time();
        }
        _ => {
          let _ = h.get_sixty_cycle_hour();
          let _ = h.get_solar_time();
          let _ = h.get_lunar_day().get_sixty_cycle_day();
          let _ = h.get_lunar_day().get_solar_day();
        }
      }
      a += 7200 * n;
      if a < cal().dn(1, 2, 10) * 86400 || a > cal().dn(9998, 12, 31) * 86400 {
        break;
      }
      if cal::reform_era_near(a.div_euclid(86400)) {
        break;
      }
      let g = h.next(*n as isize);
      let want = match four_pillars(a, false) {
        Some(w) => w,
        None => break,
      };
      if !window_has_jie(a - 2, a + 2) {
        seen += 1;
        if a.rem_euclid(86400) >= 23 * 3600 {
          late += 1;
        }
        let e = ec_idx(&g.get_eight_char());
        let sh = g.get_sixty_cycle_hour();
        let four = [sh.get_year().get_index() as i64, sh.get_month().get_index() as i64, sh.get_day().get_index() as i64, sh.get_sixty_cycle().get_index() as i64];
        let own = g.get_sixty_cycle().get_index() as i64;
        let at = abs_sec_of(&g.get_solar_time());
        let view_at = abs_sec_of(&sh.get_solar_time());
        let e4 = ec_idx(&LunarSect2EightCharProvider::new().get_eight_char(g.clone()));
        let want2 = four_pillars(a, true).unwrap_or(want);
        if e != want || four != want || own != want[3] || e4 != want2 {
          out.push((format!("C09/stepped-pillars/{}", key()), format!("step {} ({:+}): eight characters {} / instant view {} / own hour pillar {} / sect2 {}", k, n, names(e), names(four), pillar_name(own), names(e4)), format!("{} at {} (sect2 {})", names(want), fmt_abs(a), names(want2))));
        }
        if at != Some(a) || view_at != Some(a) {
          out.push((format!("C09/stepped-instant/{}", key()), format!("step {} ({:+}): civil instant {:?}, instant view at {:?}", k, n, at.map(fmt_abs), view_at.map(fmt_abs)), fmt_abs(a)));
        }
      }
      h = g;
    }
    (out, seen, late)
  });
  log.ev(1);
  match r {
    Ok((v, seen, late)) => {
      log.count("stepped.hours_judged", seen);
      log.count("stepped.late_zi_hours", late);
      if seen > 0 {
        log.nt_distinct(mix(a0 as u64, 0x57E9 + warm));
      }
      for (sig, o, e) in v {
        log.violate(sig, "LunarHour::next after earlier queries", key(), o, e);
      }
    }
    Err(msg) => log.violate(format!("C09/panic-stepped/{}", key()), "LunarHour::next after earlier queries", key(), format!("panic: {}", msg), "no panic".into()),
  }
}

fn inverse(i: usize, cfg: &Cfg, log: &mut Log) {
  let mut rng = Rng::new(mix(cfg.seed, i as u64 ^ 0x1C09));
  let a = random_instant(&mut rng);
  let want = match four_pillars(a, false) {
    Some(w) => w,
    None => return,
  };
  let (y, _, _) = cal().date(a.div_euclid(86400));
  let (ra, rb) = match rng.below(4) {
    0 => (rng.range(0, 2), rng.range(0, 2)),
    1 => (rng.range(0, 120), rng.range(0, 120)),
    2 => (rng.range(0, 61), rng.range(0, 61)),
    _ => (1, 1),
  };
  let (lo_y, hi_y) = ((y - ra).max(1), (y + rb).min(9999));
  let (wlo, whi) = double_hour_window(a);
  let jie = window_has_jie(wlo, whi);
  log.ev(1);
  log.count("inverse.queries", 1);
  log.nt_distinct(mix(a as u64, (ra * 1000 + rb) as u64));
  let key = || format!("{}_years_{}_{}", fmt_abs(a), lo_y, hi_y);
  let r = guard(|| {
    let e = EightChar::new(&pillar_name(want[0]), &pillar_name(want[1]), &pillar_name(want[2]), &pillar_name(want[3]));
    let l = e.get_solar_times(lo_y as isize, hi_y as isize);
    l.iter().map(abs_sec_of).collect::<Vec<Option<i64>>>()
  });
  match r {
    Ok(times) => {
      log.count("inverse.instants_returned", times.len() as u64);
      let mut hit = false;
      for t in &times {
        match t {
          Some(t) => {
            // soundness: the returned instant has the queried characters (unless it sits on a Jie second)
            if !window_has_jie(*t - 2, *t + 2) {
              let got = four_pillars(*t, false);
              if got != Some(want) {
                log.violate(format!("C09/inverse-sound/{}", key()), "EightChar::get_solar_times", format!("query {}", names(want)), format!("returned {} which has {}", fmt_abs(*t), got.map(names).unwrap_or_default()), names(want));
              }
            }
            if *t >= wlo && *t <= whi {
              hit = true;
            }
          }
          None => log.violate(format!("C09/inverse-sound/{}", key()), "EightChar::get_solar_times", format!("query {}", names(want)), "returned an invalid instant".into(), "valid instants".into()),
        }
      }
      let bi = ((a.rem_euclid(86400) / 3600 + 1) / 2 % 12) as usize;
      if jie {
        log.count("inverse.skipped_double_hour_contains_a_jie", 1);
      } else {
        const NAMES: [&str; 12] = ["inverse.double_hour_00_zi", "inverse.double_hour_01_chou", "inverse.double_hour_02_yin", "inverse.double_hour_03_mao", "inverse.double_hour_04_chen", "inverse.double_hour_05_si", "inverse.double_hour_06_wu", "inverse.double_hour_07_wei", "inverse.double_hour_08_shen", "inverse.double_hour_09_you", "inverse.double_hour_10_xu", "inverse.double_hour_11_hai"];
        log.count(NAMES[bi], 1);
        if !hit {
          log.violate(
            format!("C09/inverse-complete/{}", key()),
            "EightChar::get_solar_times",
            format!("query {} over years {}..{}", names(want), lo_y, hi_y),
            format!("{} instants returned, none inside {}..{}", times.len(), fmt_abs(wlo), fmt_abs(whi)),
            "at least one instant inside the double-hour".into(),
          );
        } else {
          log.count("inverse.found_in_the_queried_double_hour", 1);
        }
      }
    }
    Err(msg) => log.violate(format!("C09/panic-inverse/{}", key()), "EightChar::get_solar_times", key(), format!("panic: {}", msg), "a list of instants".into()),
  }
}

/// inconsistent characters (month stem contradicting Five Tigers) must give an empty list, never a panic
fn inverse_inconsistent(i: usize, cfg: &Cfg, log: &mut Log) {
  let mut rng = Rng::new(mix(cfg.seed, i as u64 ^ 0x2C09));
  let yp = rng.range(0, 59);
  let k = rng.range(0, 11);
  let good = crate::model::ganzhi::month_pillar(yp % 10, k);
  let bad = (good + 12 * rng.range(1, 4)) % 60; // same branch, another stem
  let dp = rng.range(0, 59);
  let hb = rng.range(0, 11);
  let hp = hour_pillar(dp % 10, hb);
  log.ev(1);
  log.count("inverse.inconsistent_queries", 1);
  let key = format!("{}_{}_{}_{}", pillar_name(yp), pillar_name(bad), pillar_name(dp), pillar_name(hp));
  let r = guard(|| EightChar::new(&pillar_name(yp), &pillar_name(bad), &pillar_name(dp), &pillar_name(hp)).get_solar_times(1900, 2100).len());
  match r {
    Ok(0) => {}
    Ok(n) => log.violate(format!("C09/inverse-inconsistent/{}", key), "EightChar::get_solar_times", key.clone(), format!("{} instants", n), "none: no year has that month pillar".into()),
    Err(msg) => log.violate(format!("C09/inverse-inconsistent/{}", key), "EightChar::get_solar_times", key.clone(), format!("panic: {}", msg), "an empty list".into()),
  }
}

/// one history operation at instant a: the eight characters by a drawn route
fn history_op(a: i64, rng: &mut Rng) -> (String, Vec<String>, u64) {
  let label = format!("{}", fmt_abs(a));
  if cal::reform_era_near(a.div_euclid(86400)) || window_has_jie(a - 2, a + 2) {
    return (format!("skip({})", label), vec![], 0);
  }
  let want = match four_pillars(a, false) {
    Some(w) => w,
    None => return (format!("skip({})", label), vec![], 0),
  };
  let want2 = four_pillars(a, true).unwrap_or(want);
  let st = st_of_abs(a);
  let route = rng.below(4);
  let got = match route {
    0 => ec_idx(&st.get_lunar_hour().get_eight_char()),
    1 => {
      let sh = st.get_sixty_cycle_hour();
      [sh.get_year().get_index() as i64, sh.get_month().get_index() as i64, sh.get_day().get_index() as i64, sh.get_sixty_cycle().get_index() as i64]
    }
    2 => ec_idx(&st.get_sixty_cycle_hour().get_eight_char()),
    _ => ec_idx(&LunarSect2EightCharProvider::new().get_eight_char(st.get_lunar_hour())),
  };
  let w = if route == 3 { want2 } else { want };
  let mut bad = vec![];
  if got != w {
    bad.push(format!("{}, expected {}", names(got), names(w)));
  }
  (format!("{}({})", ["lunar-hour", "instant-view", "instant-view-chars", "sect2"][route], label), bad, 1)
}

pub fn run(cfg: &Cfg) -> (Log, Meta) {
  crate::util::set_thread_cap(10);
  let mut log = Log::new();
  if let Err(e) = cal::self_test() {
    log.harness_error(&format!("oracle self-test failed: {}", e));
  }
  let t = terms();
  if !t.errors.is_empty() || !t.monotonic() {
    log.harness_error("term list unusable as an oracle (see C06)");
    log.ev(1);
    return (log, Meta { rule: "not run".into(), assumptions: vec![], exhaustive: false });
  }
  // rule self-test: 2024-02-10 12:00 is 甲辰 丙寅 甲辰 庚午
  let probe = cal().dn(2024, 2, 10) * 86400 + 12 * 3600;
  if four_pillars(probe, false).map(names) != Some("甲辰 丙寅 甲辰 庚午".to_string()) {
    log.harness_error(&format!("four-pillar oracle self-test failed: {:?}", four_pillars(probe, false).map(names)));
  }
  // exhaustive table: 60 consecutive days in three eras (seed picks the start)
  let mut rng = Rng::new(mix(cfg.seed, 0x3C09));
  let starts = [rng.range(cal().dn(2, 1, 1), cal().dn(1500, 1, 1)), cal().dn(1582, 9, 20), rng.range(cal().dn(1600, 1, 1), cal().dn(9998, 1, 1))];
  let mut days: Vec<i64> = vec![];
  for s in starts {
    for k in 0..60 {
      days.push(s + k);
    }
  }
  log.merge(par_range(days.len(), 4, |i, l| hour_table(days[i], l)));
  let nc = cfg.tier.pick(5_000usize, 200_000usize);
  log.merge(par_range(nc, 50, |i, l| composition(i, cfg, l)));
  let ni = cfg.tier.pick(2_000usize, 50_000usize);
  log.merge(par_range(ni, 20, |i, l| inverse(i, cfg, l)));
  log.merge(par_range(cfg.tier.pick(300usize, 5_000usize), 20, |i, l| inverse_inconsistent(i, cfg, l)));
  let ns = cfg.tier.pick(4_000usize, 150_000usize);
  log.merge(par_range(ns, 50, |i, l| stepped(i, cfg, l)));
  let nh = cfg.tier.pick(20_000usize, 300_000usize);
  log.merge(par_range(nh, 50, |i, l| crate::history::instant_walk("C09", "a sequence of eight-character look-ups at related instants on one thread", i, cfg.seed, cal().dn(1, 2, 10) * 86400, cal().dn(9998, 12, 31) * 86400, l, history_op)));
  log.floor("history.answers_judged", cfg.tier.pick(150_000, 2_000_000));
  let _ = (FIRST, LAST);
  log.floor("table.day_pillar_hour_cells", 8_640);
  log.floor("compose.instants", cfg.tier.pick(2_000, 100_000));
  log.floor("compose.late_zi_instants", cfg.tier.pick(50, 2_000));
  log.floor("inverse.queries", cfg.tier.pick(1_000, 25_000));
  log.floor("stepped.hours_judged", cfg.tier.pick(3_000, 100_000));
  log.floor("stepped.late_zi_hours", cfg.tier.pick(100, 4_000));
  log.floor("inverse.found_in_the_queried_double_hour", cfg.tier.pick(500, 12_000));
  for k in ["inverse.double_hour_00_zi", "inverse.double_hour_05_si", "inverse.double_hour_11_hai"] {
    log.floor(k, cfg.tier.pick(20, 500));
  }
  let meta = Meta {
    rule: format!(
      "exhaustive table: 3 x 60 consecutive days (all 60 day pillars, incl. the 1582 cut-over) x 24 hours x minutes {{00:00, 59:59}}: hour branch, Five-Rats stem with the 23:00 roll, instant-level day pillar, lunar day pillar unrolled, index in day, name, both routes; composition: {} seeded instants (1/8 in 22:00-01:00, 1/8 within 2 h of a Jie/Lichun instant) - four pillars vs first-principles oracle, eight characters via LunarHour, SixtyCycleHour, both providers, name round trip; inverse search: {} seeded (instant, year range) queries (ranges +-0..2, +-0..61, +-0..120, +-1) - every returned instant has the characters, and one lies in the queried double-hour unless that contains a Jie instant; {} inconsistent queries must return nothing; stepped: {} seeded chains of 1..3 LunarHour::next steps (-40..40 double-hours) from hours that first answered a drawn subset of their getters - eight characters (both sects), instant view, own hour pillar and civil instant of each stepped value vs the oracle at the instant 7200*n s later; histories: {} seeded single-thread sequences of 6..16 eight-character look-ups (LunarHour, instant view, its characters, Sect2 provider) at related instants - {}. distinct_nontrivial = distinct instants / queries plus the 23h and 0h table cells.",
      nc,
      ni,
      cfg.tier.pick(300, 5_000),
      ns,
      nh,
      crate::history::WALK_TEXT
    ),
    assumptions: vec!["term instants from the library; Five Tigers / Five Rats rhymes encoded by name in the harness and self-tested on 2024-02-10 12:00".into(), "instants on the 160 reform-era civil days listed under C02/C07 are not drawn".into(), "instants within 2 s of a Jie instant are not judged (the library rounds term instants to the second)".into()],
    exhaustive: false,
  };
  (log, meta)
}
