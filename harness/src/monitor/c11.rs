//! C11 — stepping by n is a consistent group action on every time unit and cycle.
use crate::api::*;
use crate::log::Log;
use crate::model::cal::{self, cal, weekday, FIRST, LAST};
use crate::model::lunar_seq::lunar_seq;
use crate::util::{guard, mix, par_range, Rng};
use crate::{Cfg, Meta};
use tyme4rs::tyme::culture::dog::Dog;
use tyme4rs::tyme::culture::fetus::{FetusEarthBranch, FetusHeavenStem, FetusMonth};
use tyme4rs::tyme::culture::nine::Nine;
use tyme4rs::tyme::culture::peng_zu::{PengZuEarthBranch, PengZuHeavenStem};
use tyme4rs::tyme::culture::phenology::{Phenology, ThreePhenology};
use tyme4rs::tyme::culture::plumrain::PlumRain;
use tyme4rs::tyme::culture::ren::minor::MinorRen;
use tyme4rs::tyme::culture::star::nine::{Dipper, NineStar};
use tyme4rs::tyme::culture::star::seven::SevenStar;
use tyme4rs::tyme::culture::star::six::SixStar;
use tyme4rs::tyme::culture::star::ten::TenStar;
use tyme4rs::tyme::culture::star::twelve::{Ecliptic, TwelveStar};
use tyme4rs::tyme::culture::star::twenty_eight::TwentyEightStar;
use tyme4rs::tyme::culture::*;
use tyme4rs::tyme::eightchar::{ChildLimit, DecadeFortune, Fortune};
use tyme4rs::tyme::enums::Gender;
use tyme4rs::tyme::jd::JulianDay;
use tyme4rs::tyme::lunar::{LunarDay, LunarHour, LunarMonth, LunarSeason, LunarWeek, LunarYear};
use tyme4rs::tyme::sixtycycle::{EarthBranch, HeavenStem, SixtyCycle, SixtyCycleDay, SixtyCycleHour, SixtyCycleMonth, SixtyCycleYear};
use tyme4rs::tyme::solar::{SolarDay, SolarHalfYear, SolarMonth, SolarSeason, SolarTerm, SolarTime, SolarWeek, SolarYear};
use tyme4rs::tyme::{Culture, Tyme};

// ---------------------------------------------------------------- cyclic types

macro_rules! cycle_check {
  ($log:expr, $name:literal, $ty:ty, $size:expr, names) => {{
    cycle_check!($log, $name, $ty, $size, index_only);
    // name <-> index are mutually inverse up to "first index carrying that name"
    let size = $size as i64;
    let all: Vec<String> = (0..size).map(|i| <$ty>::from_index(i as isize).get_name()).collect();
    for i in 0..size {
      $log.ev(1);
      let nm = all[i as usize].clone();
      let first = all.iter().position(|x| *x == nm).unwrap() as i64;
      match guard(|| <$ty>::from_name(&nm).get_index() as i64) {
        Ok(g) if g == first => {}
        other => $log.violate(format!("C11/cycle-name/{}_{:03}", $name, i), "from_name(get_name())", format!("{} index {} name {}", $name, i, nm), format!("{:?}", other), format!("{}", first)),
      }
      if first != i {
        $log.count("cycle.duplicate_names", 1);
      }
    }
    for bad in ["", "不存在的名字", "甲乙丙丁戊己", " "] {
      $log.ev(1);
      if all.iter().any(|x| x == bad) {
        continue;
      }
      if guard(|| <$ty>::from_name(bad).get_index()).is_ok() {
        $log.violate(format!("C11/cycle-unknown-name/{}", $name), "from_name(unknown)", format!("{} {:?}", $name, bad), "accepted".into(), "refused".into());
      }
      $log.count("cycle.unknown_names_refused", 1);
    }
  }};
  ($log:expr, $name:literal, $ty:ty, $size:expr, index_only) => {{
    let size = $size as i64;
    $log.count("cycle.types", 1);
    let r = guard(|| {
      let mut out: Vec<(String, String, String)> = vec![];
      let probe = <$ty>::from_index(0);
      if probe.get_size() as i64 != size {
        out.push((format!("C11/cycle-size/{}", $name), format!("{}", probe.get_size()), format!("{}", size)));
      }
      let real = probe.get_size() as i64;
      let mut steps: Vec<i64> = (-2 * real..=2 * real).collect();
      steps.extend_from_slice(&[1_000_003, -1_000_003, 60 * real + 1, -(60 * real) - 1]);
      // step counts (and constructor indices) that do not fit in 32 bits
      steps.extend_from_slice(&[2_147_483_647, 2_147_483_648, -2_147_483_648, -2_147_483_649, 3_000_000_000, -3_000_000_000, 4_294_967_296 + 7, -4_294_967_296 - 7, 1_000_000_000_039, -1_000_000_000_039, (1i64 << 52) + 12_345, -(1i64 << 52) - 12_345]);
      for i in 0..real {
        let x = <$ty>::from_index(i as isize);
        if x.get_index() as i64 != i {
          out.push((format!("C11/cycle-index/{}_{:03}", $name, i), format!("{}", x.get_index()), format!("{}", i)));
        }
        for k in [-3i64, -1, 1, 2, 1000, 3_000_000_011, -3_000_000_011] {
          let y = <$ty>::from_index((i + k * real) as isize);
          if y.get_index() as i64 != i || y.get_name() != x.get_name() {
            out.push((format!("C11/cycle-wrap/{}_{:03}_{:+}", $name, i, k), format!("{}", y.get_index()), format!("{}", i)));
          }
        }
        for &n in &steps {
          let y = x.next(n as isize);
          let want = (i + n).rem_euclid(real);
          if y.get_index() as i64 != want {
            out.push((format!("C11/cycle-next/{}_{:03}_step_{:+}", $name, i, n), format!("{}", y.get_index()), format!("{}", want)));
          }
        }
        // composition on the cycle itself
        let a = (i * 7 + 3) % (3 * real) - real;
        let b = (i * 5 + 1) % (3 * real) - real;
        if x.next(a as isize).next(b as isize).get_index() != x.next((a + b) as isize).get_index() || x.next(a as isize).next(-a as isize).get_index() as i64 != i || x.next(0).get_index() as i64 != i {
          out.push((format!("C11/cycle-laws/{}_{:03}", $name, i), "composition / inverse / identity broken".into(), "group action".into()));
        }
        // two steps that each fit in 32 bits and whose sum does not
        let (ba, bb) = (1_500_000_000i64 + i, 1_500_000_007i64);
        if x.next(ba as isize).next(bb as isize).get_index() as i64 != (i + ba + bb).rem_euclid(real) || x.next(-ba as isize).next(-bb as isize).get_index() as i64 != (i - ba - bb).rem_euclid(real) {
          out.push((format!("C11/cycle-laws-wide/{}_{:03}", $name, i), format!("next({}).next({}) -> {}", ba, bb, x.next(ba as isize).next(bb as isize).get_index()), format!("{}", (i + ba + bb).rem_euclid(real))));
        }
        // the same laws as the type's own equality sees them, and equality tells neighbours apart
        let eq_ok = x.next(0) == x && x.next(a as isize).next(-a as isize) == x && x.next(a as isize).next(b as isize) == x.next((a + b) as isize) && <$ty>::from_index(i as isize) == x && !(x.next(0) != x);
        // (several cycles carry the same name at neighbouring indices and compare by name: only differently
        // named neighbours have to differ)
        let ne_ok = real < 2 || x.next(1).get_name() == x.get_name() || (x.next(1) != x && !(x.next(1) == x));
        if !eq_ok || !ne_ok {
          out.push((format!("C11/cycle-equality/{}_{:03}", $name, i), format!("laws under == hold: {}, neighbour differs: {}", eq_ok, ne_ok), "both".into()));
        }
      }
      (out, real, steps.len() as i64)
    });
    match r {
      Ok((v, real, ns)) => {
        $log.ev((real * (ns + 9)) as u64);
        $log.nt(real as u64);
        $log.count("cycle.elements", real as u64);
        $log.count("cycle.steps", (real * ns) as u64);
        for (sig, o, e) in v {
          $log.violate(sig, "cyclic type", $name.to_string(), o, e);
        }
        $log.sample(|| format!("{}: {} elements x {} step counts, wrap-around and name lookups", $name, real, ns));
      }
      Err(msg) => $log.violate(format!("C11/cycle-panic/{}", $name), "cyclic type", $name.to_string(), format!("panic: {}", msg), "no panic".into()),
    }
  }};
}

const CYCLIC_TYPES: [&str; 42] = [
  "Dog", "FetusEarthBranch", "FetusHeavenStem", "FetusMonth", "Animal", "Beast", "Constellation", "Direction", "Duty", "Element", "God", "Land", "Luck", "Phase", "Sixty", "Sound", "Taboo", "Ten", "Terrain", "Twenty", "Week", "Zodiac", "Zone", "Nine", "PengZuEarthBranch", "PengZuHeavenStem", "Phenology", "ThreePhenology", "PlumRain", "MinorRen", "Dipper", "NineStar", "SevenStar", "SixStar", "TenStar", "Ecliptic",
  "TwelveStar", "TwentyEightStar", "LunarSeason", "EarthBranch", "HeavenStem", "SixtyCycle",
];
const LINEAR_TYPES: [&str; 20] = [
  "SolarYear", "SolarHalfYear", "SolarSeason", "SolarMonth", "SolarWeek", "SolarDay", "SolarTime", "SolarTerm", "JulianDay", "LunarYear", "LunarMonth", "LunarWeek", "LunarDay", "LunarHour", "SixtyCycleYear", "SixtyCycleMonth", "SixtyCycleDay", "SixtyCycleHour", "DecadeFortune", "Fortune",
];

fn cycles(log: &mut Log) {
  cycle_check!(log, "Dog", Dog, 3, names);
  cycle_check!(log, "FetusEarthBranch", FetusEarthBranch, 6, index_only);
  cycle_check!(log, "FetusHeavenStem", FetusHeavenStem, 5, index_only);
  cycle_check!(log, "FetusMonth", FetusMonth, 12, index_only);
  cycle_check!(log, "Animal", Animal, 28, names);
  cycle_check!(log, "Beast", Beast, 4, names);
  cycle_check!(log, "Constellation", Constellation, 12, names);
  cycle_check!(log, "Direction", Direction, 9, names);
  cycle_check!(log, "Duty", Duty, 12, names);
  cycle_check!(log, "Element", Element, 5, names);
  cycle_check!(log, "God", God, 151, names);
  cycle_check!(log, "Land", Land, 9, names);
  cycle_check!(log, "Luck", Luck, 2, names);
  cycle_check!(log, "Phase", Phase, 30, names);
  cycle_check!(log, "Sixty", Sixty, 3, names);
  cycle_check!(log, "Sound", Sound, 30, names);
  cycle_check!(log, "Taboo", Taboo, 141, names);
  cycle_check!(log, "Ten", Ten, 6, names);
  cycle_check!(log, "Terrain", Terrain, 12, names);
  cycle_check!(log, "Twenty", Twenty, 9, names);
  cycle_check!(log, "Week", Week, 7, names);
  cycle_check!(log, "Zodiac", Zodiac, 12, names);
  cycle_check!(log, "Zone", Zone, 4, names);
  cycle_check!(log, "Nine", Nine, 9, names);
  cycle_check!(log, "PengZuEarthBranch", PengZuEarthBranch, 12, names);
  cycle_check!(log, "PengZuHeavenStem", PengZuHeavenStem, 10, names);
  cycle_check!(log, "Phenology", Phenology, 72, names);
  cycle_check!(log, "ThreePhenology", ThreePhenology, 3, names);
  cycle_check!(log, "PlumRain", PlumRain, 2, names);
  cycle_check!(log, "MinorRen", MinorRen, 6, names);
  cycle_check!(log, "Dipper", Dipper, 9, names);
  cycle_check!(log, "NineStar", NineStar, 9, names);
  cycle_check!(log, "SevenStar", SevenStar, 7, names);
  cycle_check!(log, "SixStar", SixStar, 6, names);
  cycle_check!(log, "TenStar", TenStar, 10, names);
  cycle_check!(log, "Ecliptic", Ecliptic, 2, names);
  cycle_check!(log, "TwelveStar", TwelveStar, 12, names);
  cycle_check!(log, "TwentyEightStar", TwentyEightStar, 28, names);
  cycle_check!(log, "LunarSeason", LunarSeason, 12, names);
  cycle_check!(log, "EarthBranch", EarthBranch, 12, names);
  cycle_check!(log, "HeavenStem", HeavenStem, 10, names);
  cycle_check!(log, "SixtyCycle", SixtyCycle, 60, names);
}

/// every `impl Tyme for X` in the source must be in one of the two compile-time lists
fn implementor_census(log: &mut Log) {
  let mut found: Vec<String> = vec![];
  let mut stack = vec![std::path::PathBuf::from("/repo/src")];
  while let Some(d) = stack.pop() {
    if let Ok(rd) = std::fs::read_dir(&d) {
      for e in rd.flatten() {
        let p = e.path();
        if p.is_dir() {
          stack.push(p);
        } else if p.extension().map(|x| x == "rs").unwrap_or(false) {
          if let Ok(text) = std::fs::read_to_string(&p) {
            for line in text.lines() {
              if let Some(rest) = line.trim().strip_prefix("impl Tyme for ") {
                found.push(rest.trim_end_matches('{').trim().to_string());
              }
            }
          }
        }
      }
    }
  }
  found.sort();
  found.dedup();
  log.count("census.tyme_implementors_in_source", found.len() as u64);
  for f in &found {
    if f == "LoopTyme" {
      continue;
    }
    if !CYCLIC_TYPES.contains(&f.as_str()) && !LINEAR_TYPES.contains(&f.as_str()) {
      log.harness_error(&format!("steppable type {} exists in the source but is not covered by this monitor", f));
    }
  }
  if found.is_empty() {
    log.note("source tree not readable at /repo/src: implementor census skipped".into());
  }
}

// ---------------------------------------------------------------- linear units

/// a linear unit under test: oracle ordinal <-> library value
trait Lin: Sized {
  const NAME: &'static str;
  /// inclusive ordinal range the workload may touch (every intermediate result stays inside)
  fn range() -> (i64, i64);
  /// ordinal distance of one step (1 for most, 7200 s for LunarHour)
  fn unit() -> i64 {
    1
  }
  fn mk(o: i64) -> Self;
  /// oracle-side ordinal and a canonical description of the library value
  fn ord(&self) -> Option<i64>;
  fn canon(&self) -> String;
  /// the wrapped type's own equality
  fn same(&self, o: &Self) -> bool;
  fn step(&self, n: i64) -> Self;
  /// ordinals that must not be used (e.g. reform-era days); default none
  fn avoid(_o: i64) -> bool {
    false
  }
  fn boundaries() -> Vec<i64> {
    vec![]
  }
  fn max_step() -> i64 {
    let (lo, hi) = Self::range();
    (hi - lo) / Self::unit()
  }
}

struct SY(SolarYear);
impl Lin for SY {
  const NAME: &'static str = "SolarYear";
  fn range() -> (i64, i64) {
    (1, 9999)
  }
  fn mk(o: i64) -> Self {
    SY(SolarYear::from_year(o as isize))
  }
  fn ord(&self) -> Option<i64> {
    Some(self.0.get_year() as i64)
  }
  fn canon(&self) -> String {
    format!("{}", self.0.get_year())
  }
  fn same(&self, o: &Self) -> bool {
    self.0 == o.0
  }
  fn step(&self, n: i64) -> Self {
    SY(self.0.next(n as isize))
  }
}

struct SH(SolarHalfYear);
impl Lin for SH {
  const NAME: &'static str = "SolarHalfYear";
  fn range() -> (i64, i64) {
    (2, 19999)
  }
  fn mk(o: i64) -> Self {
    SH(SolarHalfYear::from_index((o / 2) as isize, (o % 2) as usize))
  }
  fn ord(&self) -> Option<i64> {
    Some(self.0.get_year() as i64 * 2 + self.0.get_index() as i64)
  }
  fn canon(&self) -> String {
    format!("{}-H{}", self.0.get_year(), self.0.get_index())
  }
  fn same(&self, o: &Self) -> bool {
    self.0 == o.0
  }
  fn step(&self, n: i64) -> Self {
    SH(self.0.next(n as isize))
  }
}

struct SS(SolarSeason);
impl Lin for SS {
  const NAME: &'static str = "SolarSeason";
  fn range() -> (i64, i64) {
    (4, 39999)
  }
  fn mk(o: i64) -> Self {
    SS(SolarSeason::from_index((o / 4) as isize, (o % 4) as usize))
  }
  fn ord(&self) -> Option<i64> {
    Some(self.0.get_year() as i64 * 4 + self.0.get_index() as i64)
  }
  fn canon(&self) -> String {
    format!("{}-Q{}", self.0.get_year(), self.0.get_index())
  }
  fn same(&self, o: &Self) -> bool {
    self.0 == o.0
  }
  fn step(&self, n: i64) -> Self {
    SS(self.0.next(n as isize))
  }
}

struct SM(SolarMonth);
impl Lin for SM {
  const NAME: &'static str = "SolarMonth";
  fn range() -> (i64, i64) {
    (12, 9999 * 12 + 11)
  }
  fn mk(o: i64) -> Self {
    SM(SolarMonth::from_ym((o / 12) as isize, (o % 12 + 1) as usize))
  }
  fn ord(&self) -> Option<i64> {
    Some(self.0.get_year() as i64 * 12 + self.0.get_month() as i64 - 1)
  }
  fn canon(&self) -> String {
    format!("{}-{}", self.0.get_year(), self.0.get_month())
  }
  fn same(&self, o: &Self) -> bool {
    self.0 == o.0
  }
  fn step(&self, n: i64) -> Self {
    SM(self.0.next(n as isize))
  }
  fn boundaries() -> Vec<i64> {
    vec![12, 9999 * 12 + 11, 1582 * 12 + 9, 2000 * 12]
  }
}

struct SD(SolarDay);
impl Lin for SD {
  const NAME: &'static str = "SolarDay";
  fn range() -> (i64, i64) {
    (FIRST, LAST)
  }
  fn mk(o: i64) -> Self {
    SD(sd_of_dn(o))
  }
  fn ord(&self) -> Option<i64> {
    dn_of(&self.0)
  }
  fn canon(&self) -> String {
    fmt_ymd(ymd(&self.0))
  }
  fn same(&self, o: &Self) -> bool {
    self.0 == o.0
  }
  fn step(&self, n: i64) -> Self {
    SD(self.0.next(n as isize))
  }
  fn boundaries() -> Vec<i64> {
    vec![FIRST, LAST, 2299160, 2299161, cal().dn(2000, 2, 29)]
  }
}

struct ST(SolarTime);
impl Lin for ST {
  const NAME: &'static str = "SolarTime";
  fn range() -> (i64, i64) {
    (FIRST * 86400, LAST * 86400 + 86399)
  }
  fn mk(o: i64) -> Self {
    ST(st_of_abs(o))
  }
  fn ord(&self) -> Option<i64> {
    abs_sec_of(&self.0)
  }
  fn canon(&self) -> String {
    format!("{}", self.0)
  }
  fn same(&self, o: &Self) -> bool {
    self.0 == o.0
  }
  fn step(&self, n: i64) -> Self {
    ST(self.0.next(n as isize))
  }
  fn boundaries() -> Vec<i64> {
    vec![FIRST * 86400, LAST * 86400 + 86399, 2299161 * 86400 - 1, 2299161 * 86400]
  }
}

/// weeks with start weekday 1 (Monday), identified by their first day
struct SW(SolarWeek);
const SW_START: i64 = 1;
impl Lin for SW {
  const NAME: &'static str = "SolarWeek";
  fn range() -> (i64, i64) {
    ((FIRST + 60) / 7 + 1, (LAST - 60) / 7 - 1)
  }
  fn mk(o: i64) -> Self {
    // the 7-day block number o: first day = the Monday on or after 7*o
    let mut f = 7 * o;
    while weekday(f) != SW_START {
      f += 1;
    }
    SW(sd_of_dn(f).get_solar_week(SW_START as usize))
  }
  fn ord(&self) -> Option<i64> {
    let f = dn_of(&self.0.get_first_day())?;
    if weekday(f) != SW_START {
      return None;
    }
    Some((f - SW_START + 1).div_euclid(7))
  }
  fn canon(&self) -> String {
    format!("week starting {}", fmt_ymd(ymd(&self.0.get_first_day())))
  }
  fn same(&self, o: &Self) -> bool {
    self.0 == o.0
  }
  fn step(&self, n: i64) -> Self {
    SW(self.0.next(n as isize))
  }
  fn max_step() -> i64 {
    3000
  }
}

struct TM(SolarTerm);
impl Lin for TM {
  const NAME: &'static str = "SolarTerm";
  fn range() -> (i64, i64) {
    (24, 9999 * 24 + 23)
  }
  fn mk(o: i64) -> Self {
    TM(SolarTerm::from_index((o / 24) as isize, (o % 24) as isize))
  }
  fn ord(&self) -> Option<i64> {
    Some(self.0.get_year() as i64 * 24 + self.0.get_index() as i64)
  }
  fn canon(&self) -> String {
    format!("{}/{} jd {}", self.0.get_year(), self.0.get_index(), self.0.get_cursory_julian_day())
  }
  fn same(&self, o: &Self) -> bool {
    self.0 == o.0
  }
  fn step(&self, n: i64) -> Self {
    TM(self.0.next(n as isize))
  }
}

struct JD(JulianDay);
impl Lin for JD {
  const NAME: &'static str = "JulianDay";
  fn range() -> (i64, i64) {
    (FIRST, LAST)
  }
  fn mk(o: i64) -> Self {
    JD(JulianDay::from_julian_day(o as f64 - 0.5))
  }
  fn ord(&self) -> Option<i64> {
    let d = self.0.get_day() + 0.5;
    if d.fract() == 0.0 {
      Some(d as i64)
    } else {
      None
    }
  }
  fn canon(&self) -> String {
    format!("{}", self.0.get_day())
  }
  fn same(&self, o: &Self) -> bool {
    self.0 == o.0
  }
  fn step(&self, n: i64) -> Self {
    JD(self.0.next(n as isize))
  }
}

struct LY(LunarYear);
impl Lin for LY {
  const NAME: &'static str = "LunarYear";
  fn range() -> (i64, i64) {
    (-1, 9999)
  }
  fn mk(o: i64) -> Self {
    LY(LunarYear::from_year(o as isize))
  }
  fn ord(&self) -> Option<i64> {
    Some(self.0.get_year() as i64)
  }
  fn canon(&self) -> String {
    format!("{}", self.0.get_year())
  }
  fn same(&self, o: &Self) -> bool {
    self.0 == o.0
  }
  fn step(&self, n: i64) -> Self {
    LY(self.0.next(n as isize))
  }
}

struct LMo(LunarMonth);
impl Lin for LMo {
  const NAME: &'static str = "LunarMonth";
  fn range() -> (i64, i64) {
    (0, lunar_seq().months.len() as i64 - 1)
  }
  fn mk(o: i64) -> Self {
    let m = lunar_seq().months[o as usize];
    LMo(LunarMonth::from_ym(m.y as isize, m.m as isize))
  }
  fn ord(&self) -> Option<i64> {
    let (y, m) = lym(&self.0);
    lunar_seq().index_of(y, m).map(|i| i as i64)
  }
  fn canon(&self) -> String {
    let (y, m) = lym(&self.0);
    format!("{} first {} days {} idx {}", fmt_lym(y, m), first_dn(&self.0), self.0.get_day_count(), self.0.get_index_in_year())
  }
  fn same(&self, o: &Self) -> bool {
    self.0 == o.0
  }
  fn step(&self, n: i64) -> Self {
    LMo(self.0.next(n as isize))
  }
  fn max_step() -> i64 {
    2500
  }
}

fn lunar_safe_day(n: i64) -> bool {
  let (y, _, _) = cal().date(n);
  n >= cal().dn(29, 1, 1) && !(233..=243).contains(&y)
}

struct LD(LunarDay);
impl Lin for LD {
  const NAME: &'static str = "LunarDay";
  fn range() -> (i64, i64) {
    (cal().dn(29, 1, 1), LAST - 40)
  }
  fn mk(o: i64) -> Self {
    // warm value: both per-value memos are filled before any stepping happens
    let l = sd_of_dn(o).get_lunar_day();
    let _ = l.get_solar_day();
    let _ = l.get_sixty_cycle_day();
    LD(l)
  }
  fn ord(&self) -> Option<i64> {
    dn_of(&self.0.get_solar_day())
  }
  fn canon(&self) -> String {
    let v = self.0.get_sixty_cycle_day();
    format!("{} civil {} view {} {}", fmt_lymd(lymd(&self.0)), fmt_ymd(ymd(&self.0.get_solar_day())), fmt_ymd(ymd(&v.get_solar_day())), v.get_sixty_cycle().get_name())
  }
  fn same(&self, o: &Self) -> bool {
    self.0 == o.0
  }
  fn step(&self, n: i64) -> Self {
    LD(self.0.next(n as isize))
  }
  fn avoid(o: i64) -> bool {
    !lunar_safe_day(o)
  }
}

struct LW(LunarWeek);
impl Lin for LW {
  const NAME: &'static str = "LunarWeek";
  fn range() -> (i64, i64) {
    ((cal().dn(30, 1, 1)) / 7 + 1, (LAST - 500) / 7 - 1)
  }
  fn mk(o: i64) -> Self {
    let mut f = 7 * o;
    while weekday(f) != 0 {
      f += 1;
    }
    // the lunar week (start Sunday) that contains civil day f+3, found through its month
    let l = sd_of_dn(f + 3).get_lunar_day();
    let m = l.get_lunar_month();
    let first = first_dn(&m);
    let b0 = first - weekday(first);
    let idx = (f - b0) / 7;
    LW(LunarWeek::from_ym(m.get_year(), m.get_month_with_leap(), idx as usize, 0))
  }
  fn ord(&self) -> Option<i64> {
    let f = dn_of(&self.0.get_first_day().get_solar_day())?;
    if weekday(f) != 0 {
      return None;
    }
    Some(f.div_euclid(7))
  }
  fn canon(&self) -> String {
    format!("lunar week starting {}", fmt_ymd(ymd(&self.0.get_first_day().get_solar_day())))
  }
  fn same(&self, o: &Self) -> bool {
    self.0 == o.0
  }
  fn step(&self, n: i64) -> Self {
    LW(self.0.next(n as isize))
  }
  fn avoid(o: i64) -> bool {
    !lunar_safe_day(7 * o - 400) || !lunar_safe_day(7 * o + 400)
  }
  fn max_step() -> i64 {
    400
  }
}

struct LH(LunarHour);
impl Lin for LH {
  const NAME: &'static str = "LunarHour";
  fn range() -> (i64, i64) {
    (cal().dn(29, 1, 1) * 86400, (LAST - 40) * 86400)
  }
  fn unit() -> i64 {
    7200
  }
  fn mk(o: i64) -> Self {
    let h = st_of_abs(o).get_lunar_hour();
    let _ = h.get_solar_time();
    let _ = h.get_sixty_cycle_hour();
    LH(h)
  }
  fn ord(&self) -> Option<i64> {
    abs_sec_of(&self.0.get_solar_time())
  }
  fn canon(&self) -> String {
    let v = self.0.get_sixty_cycle_hour();
    format!("{} {:02}:{:02}:{:02} civil {} view {} {} {}", fmt_lymd(lymd(&self.0.get_lunar_day())), self.0.get_hour(), self.0.get_minute(), self.0.get_second(), self.0.get_solar_time(), v.get_solar_time(), v.get_day().get_name(), v.get_sixty_cycle().get_name())
  }
  fn same(&self, o: &Self) -> bool {
    self.0 == o.0
  }
  fn step(&self, n: i64) -> Self {
    LH(self.0.next(n as isize))
  }
  fn avoid(o: i64) -> bool {
    !lunar_safe_day(o.div_euclid(86400))
  }
  fn max_step() -> i64 {
    2_000_000
  }
}

struct CY(SixtyCycleYear);
impl Lin for CY {
  const NAME: &'static str = "SixtyCycleYear";
  fn range() -> (i64, i64) {
    (-1, 9999)
  }
  fn mk(o: i64) -> Self {
    CY(SixtyCycleYear::from_year(o as isize))
  }
  fn ord(&self) -> Option<i64> {
    Some(self.0.get_year() as i64)
  }
  fn canon(&self) -> String {
    format!("{} {}", self.0.get_year(), self.0.get_sixty_cycle().get_name())
  }
  fn same(&self, o: &Self) -> bool {
    self.0 == o.0
  }
  fn step(&self, n: i64) -> Self {
    CY(self.0.next(n as isize))
  }
}

struct CM(SixtyCycleMonth);
impl Lin for CM {
  const NAME: &'static str = "SixtyCycleMonth";
  fn range() -> (i64, i64) {
    (-12, 9999 * 12 + 11)
  }
  fn mk(o: i64) -> Self {
    CM(SixtyCycleMonth::from_index(o.div_euclid(12) as isize, o.rem_euclid(12) as isize))
  }
  fn ord(&self) -> Option<i64> {
    Some(self.0.get_sixty_cycle_year().get_year() as i64 * 12 + self.0.get_index_in_year() as i64)
  }
  fn canon(&self) -> String {
    format!("{} {}", self.0.get_sixty_cycle_year().get_year(), self.0.get_sixty_cycle().get_name())
  }
  fn same(&self, o: &Self) -> bool {
    self.0 == o.0
  }
  fn step(&self, n: i64) -> Self {
    CM(self.0.next(n as isize))
  }
  fn boundaries() -> Vec<i64> {
    vec![-12, -11, -1, 0, 1, 11, 12, 9999 * 12 + 11]
  }
}

struct CD(SixtyCycleDay);
impl Lin for CD {
  const NAME: &'static str = "SixtyCycleDay";
  fn range() -> (i64, i64) {
    (cal().dn(29, 1, 1), LAST - 40)
  }
  fn mk(o: i64) -> Self {
    CD(SixtyCycleDay::from_solar_day(sd_of_dn(o)))
  }
  fn ord(&self) -> Option<i64> {
    dn_of(&self.0.get_solar_day())
  }
  fn canon(&self) -> String {
    format!("{} {} {} {}", fmt_ymd(ymd(&self.0.get_solar_day())), self.0.get_year().get_name(), self.0.get_month().get_name(), self.0.get_sixty_cycle().get_name())
  }
  fn same(&self, o: &Self) -> bool {
    self.0 == o.0
  }
  fn step(&self, n: i64) -> Self {
    CD(self.0.next(n as isize))
  }
  fn avoid(o: i64) -> bool {
    !lunar_safe_day(o)
  }
}

struct CH(SixtyCycleHour);
impl Lin for CH {
  const NAME: &'static str = "SixtyCycleHour";
  fn range() -> (i64, i64) {
    (cal().dn(29, 1, 1) * 86400, (LAST - 40) * 86400)
  }
  fn mk(o: i64) -> Self {
    CH(SixtyCycleHour::from_solar_time(st_of_abs(o)))
  }
  fn ord(&self) -> Option<i64> {
    abs_sec_of(&self.0.get_solar_time())
  }
  fn canon(&self) -> String {
    format!("{} {} {} {} {}", self.0.get_solar_time(), self.0.get_year().get_name(), self.0.get_month().get_name(), self.0.get_day().get_name(), self.0.get_sixty_cycle().get_name())
  }
  fn same(&self, o: &Self) -> bool {
    self.0 == o.0
  }
  fn step(&self, n: i64) -> Self {
    CH(self.0.next(n as isize))
  }
  fn avoid(o: i64) -> bool {
    !lunar_safe_day(o.div_euclid(86400))
  }
}

thread_local! {
  static CHILD_LIMIT: ChildLimit = ChildLimit::from_solar_time(SolarTime::from_ymd_hms(1992, 2, 2, 12, 0, 0), Gender::MAN);
}

fn some_child_limit() -> ChildLimit {
  CHILD_LIMIT.with(|c| c.clone())
}

struct DF(DecadeFortune);
impl Lin for DF {
  const NAME: &'static str = "DecadeFortune";
  fn range() -> (i64, i64) {
    (-200, 200)
  }
  fn mk(o: i64) -> Self {
    DF(DecadeFortune::from_child_limit(some_child_limit(), o as isize))
  }
  fn ord(&self) -> Option<i64> {
    Some(self.0.get_index() as i64)
  }
  fn canon(&self) -> String {
    format!("{} age {} {}", self.0.get_index(), self.0.get_start_age(), self.0.get_sixty_cycle().get_name())
  }
  fn same(&self, o: &Self) -> bool {
    self.0 == o.0
  }
  fn step(&self, n: i64) -> Self {
    DF(self.0.next(n as isize))
  }
}

struct FO(Fortune);
impl Lin for FO {
  const NAME: &'static str = "Fortune";
  fn range() -> (i64, i64) {
    (-500, 500)
  }
  fn mk(o: i64) -> Self {
    FO(Fortune::from_child_limit(some_child_limit(), o as isize))
  }
  fn ord(&self) -> Option<i64> {
    Some(self.0.get_index() as i64)
  }
  fn canon(&self) -> String {
    format!("{} age {} {} {}", self.0.get_index(), self.0.get_age(), self.0.get_sixty_cycle().get_name(), self.0.get_sixty_cycle_year().get_year())
  }
  fn same(&self, o: &Self) -> bool {
    self.0 == o.0
  }
  fn step(&self, n: i64) -> Self {
    FO(self.0.next(n as isize))
  }
}

fn pick_step(rng: &mut Rng, max: i64) -> i64 {
  let m = max.max(1);
  match rng.below(9) {
    0 => 0,
    1 => 1,
    2 => -1,
    3 => *rng.pick(&[2i64, -2, 7, -7, 12, -12, 13, -13, 24, -24, 60, -60, 365, -365]),
    4 | 5 => rng.range(-40, 40),
    6 => rng.range(-(m.min(100_000)), m.min(100_000)),
    _ => rng.range(-m, m),
  }
}

fn laws<T: Lin>(cases: usize, cfg: &Cfg, chunk: usize) -> Log {
  let (lo, hi) = T::range();
  let unit = T::unit();
  let bounds = T::boundaries();
  par_range(cases, chunk, move |i, log| {
    let mut rng = Rng::new(mix(cfg.seed, i as u64 ^ crate::util::fnv(T::NAME)));
    let x = if !bounds.is_empty() && i % 6 == 0 { (*rng.pick(&bounds) + rng.range(-3, 3) * unit).clamp(lo, hi) } else { rng.range(lo, hi) };
    let (mut a, mut b) = (pick_step(&mut rng, T::max_step()), pick_step(&mut rng, T::max_step()));
    // every intermediate result must stay in range (shrink the steps instead of dropping the case)
    for _ in 0..40 {
      let pts = [x + a * unit, x + (a + b) * unit, x + b * unit];
      if pts.iter().all(|p| *p >= lo && *p <= hi) {
        break;
      }
      a /= 2;
      b /= 2;
    }
    let pts = [x, x + a * unit, x + (a + b) * unit, x + b * unit];
    if pts.iter().any(|p| *p < lo || *p > hi || T::avoid(*p)) {
      log.count("linear.cases_dropped_out_of_domain", 1);
      return;
    }
    log.ev(1);
    log.nt_distinct(mix(mix(x as u64, a as u64), mix(b as u64, crate::util::fnv(T::NAME))));
    let key = || format!("{}_{}_a{:+}_b{:+}", T::NAME, x, a, b);
    let r = guard(|| {
      let mut out: Vec<(&'static str, String, String)> = vec![];
      let v = T::mk(x);
      let c0 = v.canon();
      if v.ord() != Some(x) {
        out.push(("linear-ordinal", format!("{:?} ({})", v.ord(), c0), format!("{}", x)));
      }
      let id = v.step(0);
      if id.canon() != c0 || !id.same(&v) {
        out.push(("linear-identity", format!("{} (== {})", id.canon(), id.same(&v)), c0.clone()));
      }
      let va = v.step(a);
      if va.ord() != Some(x + a * unit) {
        out.push(("linear-move", format!("next({}) -> {:?} ({})", a, va.ord(), va.canon()), format!("{}", x + a * unit)));
      }
      let vab = va.step(b);
      let direct = v.step(a + b);
      if vab.canon() != direct.canon() || vab.ord() != Some(x + (a + b) * unit) || !vab.same(&direct) {
        out.push(("linear-compose", format!("next({}).next({}) = {} ; next({}) = {}", a, b, vab.canon(), a + b, direct.canon()), format!("equal, ordinal {}", x + (a + b) * unit)));
      }
      let back = va.step(-a);
      if back.canon() != c0 || !back.same(&v) {
        out.push(("linear-inverse", format!("next({}).next({}) = {}", a, -a, back.canon()), c0.clone()));
      }
      // the fresh construction of the target equals the stepped value
      let fresh = T::mk(x + a * unit);
      if fresh.canon() != va.canon() || !fresh.same(&va) {
        out.push(("linear-fresh", format!("stepped {} / constructed {}", va.canon(), fresh.canon()), "equal".into()));
      }
      out
    });
    match r {
      Ok(v) => {
        for (mon, o, e) in v {
          log.violate(format!("C11/{}/{}", mon, key()), mon, key(), o, e);
        }
      }
      Err(msg) => log.violate(format!("C11/linear-panic/{}", key()), "linear unit", key(), format!("panic: {}", msg), "no panic".into()),
    }
    log.sample(|| format!("{}: x = ordinal {}, a = {}, b = {}", T::NAME, x, a, b));
  })
}

fn run_unit<T: Lin>(log: &mut Log, cases: usize, cfg: &Cfg, chunk: usize, counter: &'static str) {
  let t0 = std::time::Instant::now();
  let l = laws::<T>(cases, cfg, chunk);
  let n = l.evals;
  if std::env::var("VERIF_TIMING").is_ok() {
    log.note(format!("{} {} cases {:.2}s", counter, cases, t0.elapsed().as_secs_f64()));
  }
  log.merge(l);
  log.count(counter, n);
  log.floor(counter, (cases as u64) / 10);
}

pub fn run(cfg: &Cfg) -> (Log, Meta) {
  crate::util::set_thread_cap(12);
  let mut log = Log::new();
  if let Err(e) = cal::self_test() {
    log.harness_error(&format!("oracle self-test failed: {}", e));
  }
  let seq = lunar_seq();
  if !seq.errors.is_empty() {
    log.harness_error("lunar enumeration failed (see C03)");
  }
  implementor_census(&mut log);
  cycles(&mut log);
  let cheap = cfg.tier.pick(20_000usize, 1_000_000usize);
  let mid = cfg.tier.pick(20_000usize, 300_000usize);
  let slow = cfg.tier.pick(6_000usize, 100_000usize);
  run_unit::<SY>(&mut log, cheap, cfg, 500, "linear.SolarYear");
  run_unit::<SH>(&mut log, cheap, cfg, 500, "linear.SolarHalfYear");
  run_unit::<SS>(&mut log, cheap, cfg, 500, "linear.SolarSeason");
  run_unit::<SM>(&mut log, cheap, cfg, 500, "linear.SolarMonth");
  run_unit::<SD>(&mut log, cheap, cfg, 500, "linear.SolarDay");
  run_unit::<ST>(&mut log, cheap, cfg, 500, "linear.SolarTime");
  run_unit::<JD>(&mut log, cheap, cfg, 500, "linear.JulianDay");
  run_unit::<LY>(&mut log, cheap, cfg, 500, "linear.LunarYear");
  run_unit::<CY>(&mut log, cheap, cfg, 500, "linear.SixtyCycleYear");
  run_unit::<CM>(&mut log, mid, cfg, 200, "linear.SixtyCycleMonth");
  run_unit::<DF>(&mut log, mid.min(50_000), cfg, 200, "linear.DecadeFortune");
  run_unit::<FO>(&mut log, mid.min(50_000), cfg, 200, "linear.Fortune");
  run_unit::<TM>(&mut log, mid, cfg, 100, "linear.SolarTerm");
  run_unit::<SW>(&mut log, mid, cfg, 100, "linear.SolarWeek");
  run_unit::<LMo>(&mut log, slow, cfg, 50, "linear.LunarMonth");
  run_unit::<LD>(&mut log, slow, cfg, 50, "linear.LunarDay");
  run_unit::<LH>(&mut log, slow, cfg, 50, "linear.LunarHour");
  run_unit::<LW>(&mut log, slow, cfg, 50, "linear.LunarWeek");
  run_unit::<CD>(&mut log, slow, cfg, 50, "linear.SixtyCycleDay");
  run_unit::<CH>(&mut log, slow, cfg, 50, "linear.SixtyCycleHour");
  log.floor("cycle.types", 42);
  log.floor("cycle.elements", 400);
  log.floor("cycle.steps", 50_000);
  log.floor("cycle.unknown_names_refused", 100);
  let meta = Meta {
    rule: format!(
      "cyclic types: every element of the 42 LoopTyme wrappers x steps -2*size..2*size, +-1,000,003, +-(60*size+1); get_index, wrap-around of from_index, composition/inverse/identity, from_name(get_name()) = first index with that name, 4 unknown names refused (39 types with from_name); size against the expected table; the `impl Tyme for` census of /repo/src must be covered by the monitor's lists. Linear units: 20 units (SolarYear/HalfYear/Season/Month/Week/Day/Time, SolarTerm, JulianDay, LunarYear/Month/Week/Day/Hour, SixtyCycleYear/Month/Day/Hour, DecadeFortune, Fortune) x seeded (x, a, b) with boundary-biased x and a, b in {{0, +-1, calendar sizes, small, medium, range-wide}} shrunk until every intermediate result is in range: ordinal of x, next(0), ordinal of next(a), next(a).next(b) = next(a+b), next(a).next(-a) = x, stepped = freshly constructed; cases per unit {} / {} / {} (cheap / medium / slow). Lunar-label units avoid AD < 29 and 233-243 (listed findings of C02/C03). distinct_nontrivial = cycle elements + distinct (unit, x, a, b).",
      cheap, mid, slow
    ),
    assumptions: vec![
      "SixtyCycleHour::next counts seconds and LunarHour::next double-hours (the library's own unit sizes)".into(),
      "weeks are compared by their first day (the library's own equality)".into(),
    ],
    exhaustive: false,
  };
  (log, meta)
}
