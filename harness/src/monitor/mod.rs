use crate::log::Log;
use crate::{Cfg, Meta};

pub mod c01;
pub mod c02;
pub mod c03;
pub mod c10;

pub fn dispatch(prop: &str, cfg: &Cfg) -> Option<(Log, Meta)> {
  Some(match prop {
    "C01" => c01::run(cfg),
    "C02" => c02::run(cfg),
    "C03" => c03::run(cfg),
    _ => return None,
  })
}
