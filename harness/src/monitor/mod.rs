use crate::log::Log;
use crate::{Cfg, Meta};

pub mod c01;
pub mod c02;
pub mod c03;
pub mod c04;
pub mod c05;
pub mod c06;
pub mod c07;
pub mod c08;
pub mod c09;
pub mod c10;
pub mod c11;
pub mod c12;
pub mod c13;
pub mod c14;
pub mod c15;
pub mod c16;
pub mod c17;
pub mod c18;
pub mod c19;
pub mod c20;
pub mod month_history;

pub fn dispatch(prop: &str, cfg: &Cfg) -> Option<(Log, Meta)> {
  Some(match prop {
    "C01" => c01::run(cfg),
    "C02" => c02::run(cfg),
    "C03" => c03::run(cfg),
    "C04" => c04::run(cfg),
    "C05" => c05::run(cfg),
    "C06" => c06::run(cfg),
    "C07" => c07::run(cfg),
    "C08" => c08::run(cfg),
    "C09" => c09::run(cfg),
    "C10" => c10::run(cfg),
    "C11" => c11::run(cfg),
    "C12" => c12::run(cfg),
    "C13" => c13::run(cfg),
    "C14" => c14::run(cfg),
    "C15" => c15::run(cfg),
    "C16" => c16::run(cfg),
    "C17" => c17::run(cfg),
    "C18" => c18::run(cfg),
    "C19" => c19::run(cfg),
    "C20" => c20::run(cfg),
    _ => return None,
  })
}

/// the day-level sample of the quick tier shared by C06/C07/C08/C15/C17: years = seed mod 20, plus
/// the eras where the month->term guess is at its worst and the range ends
pub fn day_sample_years(cfg: &Cfg) -> Vec<i64> {
  (1..=9999i64)
    .filter(|y| y % 20 == (cfg.seed % 20) as i64 || *y <= 30 || (1570..=1600).contains(y) || (3430..=3445).contains(y) || (7260..=7290).contains(y) || *y >= 9990)
    .collect()
}
