//! Histories over lunar months, shared by C03 (tiling fields), C04 (labels / leap month) and C05 (first day).
//! One seeded single-thread sequence of 6..16 operations; the month of each operation is derived from the previous
//! one (same month, +-1, +-2, +-12, +-13 places in the sequence, the leap twin, the same label in a year that
//! differs by a cycle / power of two / power of ten / digit).  The operations are the public constructions a
//! caller mixes in practice: the uncached constructor, a refused label followed by a valid one of the same year,
//! the leap-month query, stepping, the year's month list, a day of the month converted to its civil date, and
//! (rarely) a reset of the process-wide month cache through the guarded hook, so that the memoised paths compute
//! again.  Every answer is compared with the table observed by the in-order enumeration (`lunar_seq`).
use crate::api::*;
use crate::log::Log;
use crate::model::lunar_seq::{lunar_seq, LM};
use crate::util::{guard, mix, Rng};
use tyme4rs::tyme::lunar::{LunarDay, LunarMonth, LunarYear};
use tyme4rs::tyme::Tyme;

fn fields(m: &LunarMonth) -> (i64, i64, i64, i64, i64) {
  (m.get_year() as i64, m.get_month_with_leap() as i64, first_dn(m), m.get_day_count() as i64, m.get_index_in_year() as i64)
}

fn lm_fields(x: &LM) -> (i64, i64, i64, i64, i64) {
  (x.y, x.m, x.first, x.days, x.idx)
}

/// years y_lo..=y_hi bound where sequences start and move
pub fn month_history(prefix: &str, i: usize, seed: u64, y_lo: i64, y_hi: i64, log: &mut Log) {
  let seq = lunar_seq();
  let mut rng = Rng::new(mix(seed, i as u64 ^ 0x3C03));
  let len = rng.range(6, 16);
  let lo = seq.year_start[y_lo as usize];
  let hi = seq.year_start[y_hi as usize + 1] - 1;
  let mut p = rng.range(lo as i64, hi as i64) as usize;
  let key = format!("seq{}_{}", i, fmt_lym(seq.months[p].y, seq.months[p].m));
  let mut trace: Vec<String> = vec![];
  let r = guard(|| {
    let mut out: Vec<(String, String)> = vec![];
    let mut judged = 0u64;
    let mut refusals = 0u64;
    for step in 0..len {
      let cur = seq.months[p];
      let name = fmt_lym(cur.y, cur.m);
      let leap = seq.leap[cur.y as usize];
      match rng.below(12) {
        0 | 1 | 2 | 3 => {
          trace.push(format!("new({})", name));
          match LunarMonth::new(cur.y as isize, cur.m as isize) {
            Ok(m) => {
              if fields(&m) != lm_fields(&cur) {
                out.push((format!("step {} {}: {:?}", step, trace.join(" "), fields(&m)), format!("{:?}", lm_fields(&cur))));
              }
            }
            Err(e) => out.push((format!("step {} {}: refused: {}", step, trace.join(" "), e), "accepted".into())),
          }
          judged += 1;
        }
        4 => {
          // a label the year does not have, then a label it has
          let mut bad: Vec<i64> = vec![0, 13, -13];
          for m in 1..=12i64 {
            if m != leap {
              bad.push(-m);
            }
          }
          let b = *rng.pick(&bad);
          trace.push(format!("refuse({}, {}) new({})", cur.y, b, name));
          let refused = guard(|| LunarMonth::new(cur.y as isize, b as isize).is_ok()).map(|ok| !ok).unwrap_or(true);
          let m = LunarMonth::new(cur.y as isize, cur.m as isize).map(|m| fields(&m));
          if !refused || m != Ok(lm_fields(&cur)) {
            out.push((format!("step {} {}: refused={} then {:?}", step, trace.join(" "), refused, m), format!("refused, then {:?}", lm_fields(&cur))));
          }
          judged += 1;
          refusals += 1;
        }
        5 | 6 => {
          trace.push(format!("leap({})", cur.y));
          let ly = LunarYear::from_year(cur.y as isize);
          let got = (ly.get_leap_month() as i64, ly.get_month_count() as i64);
          let want = (leap, seq.year_slice(cur.y).len() as i64);
          if got != want {
            out.push((format!("step {} {}: leap month {} of {} months", step, trace.join(" "), got.0, got.1), format!("leap month {} of {} months", want.0, want.1)));
          }
          judged += 1;
        }
        7 | 8 => {
          let k = *rng.pick(&[1i64, -1, 2, -2, 3, 11, 12, 13, -12, -13, 25, -25]);
          let q = p as i64 + k;
          if q >= 0 && (q as usize) < seq.months.len() {
            trace.push(format!("next({}, {:+})", name, k));
            let got = fields(&LunarMonth::from_ym(cur.y as isize, cur.m as isize).next(k as isize));
            let want = lm_fields(&seq.months[q as usize]);
            if got != want {
              out.push((format!("step {} {}: {:?}", step, trace.join(" "), got), format!("{:?}", want)));
            }
            judged += 1;
          }
        }
        9 => {
          trace.push(format!("months({})", cur.y));
          let got: Vec<(i64, i64, i64, i64, i64)> = LunarYear::from_year(cur.y as isize).get_months().iter().map(fields).collect();
          let want: Vec<(i64, i64, i64, i64, i64)> = seq.year_slice(cur.y).iter().map(lm_fields).collect();
          if got != want {
            out.push((format!("step {} {}: {:?}", step, trace.join(" "), got), format!("{:?}", want)));
          }
          judged += 1;
        }
        10 => {
          let d = rng.range(1, cur.days.clamp(1, 30));
          let civil = cur.first + d - 1;
          if crate::model::cal::cal().in_range(civil) {
            trace.push(format!("day({}-{:02})", name, d));
            let l = LunarDay::from_ymd(cur.y as isize, cur.m as isize, d as usize);
            let got = (dn_of(&l.get_solar_day()), fields(&l.get_lunar_month()));
            if got != (Some(civil), lm_fields(&cur)) {
              out.push((format!("step {} {}: civil {:?} month {:?}", step, trace.join(" "), got.0, got.1), format!("civil {} month {:?}", civil, lm_fields(&cur))));
            }
            judged += 1;
          }
        }
        _ => {
          if rng.chance(1, 4) {
            trace.push("cache-reset".into());
            tyme4rs::tyme::lunar::verif::lunar_month_cache_reset();
          } else {
            trace.push(format!("from_ym({})", name));
            let got = fields(&LunarMonth::from_ym(cur.y as isize, cur.m as isize));
            if got != lm_fields(&cur) {
              out.push((format!("step {} {}: {:?}", step, trace.join(" "), got), format!("{:?}", lm_fields(&cur))));
            }
            judged += 1;
          }
        }
      }
      if !out.is_empty() {
        break;
      }
      // the next month
      let q: i64 = match rng.below(12) {
        0 | 1 => p as i64,
        2 => p as i64 + 1,
        3 => p as i64 - 1,
        4 => p as i64 + *rng.pick(&[2i64, -2, 12, -12, 13, -13]),
        5 => {
          // the leap twin of the year, or its regular partner
          match seq.index_of(cur.y, if cur.m < 0 { -cur.m } else { -leap }) {
            Some(t) if leap > 0 => t as i64,
            _ => p as i64 + 1,
          }
        }
        6 => seq.year_start[cur.y as usize + 1] as i64, // month 1 of the next year
        7 => seq.year_start[cur.y as usize] as i64 + 11, // the 12th place of this year
        11 => rng.range(lo as i64, hi as i64),
        _ => {
          let y2 = crate::history::related_year(&mut rng, cur.y, y_lo, y_hi);
          match seq.index_of(y2, cur.m) {
            Some(t) => t as i64,
            None => seq.index_of(y2, cur.m.abs()).unwrap_or(seq.year_start[y2 as usize]) as i64,
          }
        }
      };
      p = (q.max(lo as i64).min(hi as i64)) as usize;
    }
    (out, judged, refusals)
  });
  log.ev(1);
  log.nt(1);
  match r {
    Ok((v, judged, refusals)) => {
      log.count("history.sequences", 1);
      log.count("history.answers_judged", judged);
      log.count("history.refused_then_valid", refusals);
      if let Some((o, e)) = v.into_iter().next() {
        log.violate(format!("{}/history/{}", prefix, key), "a sequence of lunar-month constructions on related months on one thread", key.clone(), o, e);
      }
    }
    Err(msg) => log.violate(format!("{}/panic-history/{}", prefix, key), "a sequence of lunar-month constructions on related months on one thread", key.clone(), format!("panic: {}", msg), "no panic".into()),
  }
}

pub const RULE_TEXT: &str = "histories: seeded single-thread sequences of 6..16 operations (uncached LunarMonth::new, a refused label followed by a valid one of the same year, LunarYear::get_leap_month / get_month_count, from_ym + next(k), LunarYear::get_months, a day of the month converted to its civil date, rarely a reset of the month cache through the guarded hook) on months related to the previous one (same, +-1, +-2, +-12, +-13 places, leap twin, month 1 of the next year, the same label in a year differing by a cycle, a power of two or ten or a digit), every answer compared with the in-order enumeration";
