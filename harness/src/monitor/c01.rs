//! C01 — civil calendar and day count agree for every date 0001-9999.
use crate::api::*;
use crate::log::Log;
use crate::model::cal::{self, cal, BASE, FIRST, LAST, TOTAL_DAYS};
use crate::util::{guard, mix, par_range, Rng};
use crate::{Cfg, Meta, Tier};
use tyme4rs::tyme::jd::JulianDay;
use tyme4rs::tyme::solar::{SolarDay, SolarMonth, SolarYear};
use tyme4rs::tyme::Tyme;

const STEPS: [i64; 28] = [2, -2, 7, -7, 28, -28, 29, -29, 30, -30, 31, -31, 59, -59, 365, -365, 366, -366, 1461, -1461, 36525, -36525, 146097, -146097, 10, -10, 355, -355];
const SPANS: [i64; 10] = [31, -31, 365, -365, 1461, -1461, 36524, -36524, 146097, -146097];

fn check_date(n: i64, cfg: &Cfg, log: &mut Log) {
  let c = cal();
  let (y, m, d) = c.date(n);
  let key = cal::fmt_date(y, m, d);
  log.ev(1);
  let special = d == cal::nominal_mlen(y, m) || (m == 2 && d >= 28) || (m == 1 && d == 1) || (m == 12 && d == 31) || (y == 1582 && ((m == 9 && d >= 20) || m == 10));
  if special {
    log.nt(1);
    log.count("date.boundary_dates", 1);
  }
  if y == 1582 && m == 10 {
    log.count("date.october_1582_days", 1);
  }
  let r = guard(|| {
    let mut out: Vec<(&'static str, String, String, String)> = Vec::new();
    let sd = match SolarDay::new(y as isize, m as usize, d as usize) {
      Ok(v) => v,
      Err(e) => {
        out.push(("accept", key.clone(), format!("refused: {}", e), "accepted".into()));
        return out;
      }
    };
    // day count
    let jd = sd.get_julian_day().get_day();
    if jd != n as f64 - 0.5 {
      out.push(("jd", key.clone(), format!("{}", jd), format!("{}", n as f64 - 0.5)));
    }
    // back
    let back = ymd(&JulianDay::from_julian_day(n as f64 - 0.5).get_solar_day());
    if back != (y, m, d) {
      out.push(("roundtrip", key.clone(), fmt_ymd(back), key.clone()));
    }
    // a noon-valued and a late-evening Julian date of the same civil day map to the same date
    let back2 = ymd(&JulianDay::from_julian_day(n as f64).get_solar_day());
    if back2 != (y, m, d) {
      out.push(("roundtrip-noon", key.clone(), fmt_ymd(back2), key.clone()));
    }
    // neighbours
    let mut rng = Rng::new(mix(cfg.seed, n as u64));
    let partners = cfg.tier.pick(1, 30);
    let mut others: Vec<i64> = vec![];
    if n > FIRST {
      others.push(n - 1);
    }
    if n < LAST {
      others.push(n + 1);
    }
    for _ in 0..partners {
      others.push(rng.range(FIRST, LAST));
    }
    // a partner in the same year / same month exercises the later comparison branches
    others.push(c.dn(y, m, 1));
    others.push(c.year_first(y));
    for &o in &others {
      let od = sd_of_dn(o);
      let diff = sd.subtract(od) as i64;
      if diff != n - o {
        out.push(("subtract", format!("{}_minus_{}", key, cal::fmt_dn(o)), format!("{}", diff), format!("{}", n - o)));
      }
      let (b, a) = (sd.is_before(od), sd.is_after(od));
      if b != (n < o) || a != (n > o) {
        out.push(("order", format!("{}_vs_{}", key, cal::fmt_dn(o)), format!("before={} after={}", b, a), format!("before={} after={}", n < o, n > o)));
      }
    }
    for &s in SPANS.iter() {
      let o = n - s;
      if c.in_range(o) {
        let diff = sd.subtract(sd_of_dn(o)) as i64;
        if diff != s {
          out.push(("subtract", format!("{}_minus_{}", key, cal::fmt_dn(o)), format!("{}", diff), format!("{}", s)));
        }
      }
    }
    // stepping
    let mut steps: Vec<i64> = vec![0, 1, -1];
    steps.extend_from_slice(&STEPS);
    steps.push(rng.range(-3_652_060, 3_652_060));
    steps.push(rng.range(-400, 400));
    for &s in &steps {
      let t = n + s;
      if !c.in_range(t) {
        continue;
      }
      let got = ymd(&sd.next(s as isize));
      if got != c.date(t) {
        out.push(("next", format!("{}_step_{:+}", key, s), fmt_ymd(got), cal::fmt_dn(t)));
      }
    }
    // day of year
    let doy = sd.get_index_in_year() as i64;
    if doy != n - c.year_first(y) {
      out.push(("day-of-year", key.clone(), format!("{}", doy), format!("{}", n - c.year_first(y))));
    }
    out
  });
  match r {
    Ok(v) => {
      for (mon, k, obs, exp) in v {
        log.violate(format!("C01/{}/{}", mon, k), mon, key.clone(), obs, exp);
      }
    }
    Err(msg) => log.violate(format!("C01/panic/{}", key), "date-sweep", key.clone(), format!("panic: {}", msg), "no panic".into()),
  }
  log.sample(|| format!("date {} = day number {} (jd {}), weekday {}, stepped by {:?}..", key, n, n as f64 - 0.5, cal::weekday(n), &STEPS[..4]));
}

fn check_triples(y: i64, log: &mut Log) {
  for m in 0..=13i64 {
    for d in 0..=32i64 {
      log.ev(1);
      let want = cal::exists(y, m, d);
      // single-field neighbours of an existing date are the interesting refusals
      if !want && (cal::exists(y, m, d - 1) || cal::exists(y, m, d + 1) || cal::exists(y, m - 1, d) || cal::exists(y, m + 1, d) || cal::exists(y - 1, m, d) || cal::exists(y + 1, m, d)) {
        log.nt(1);
        log.count("accept.refusals_adjacent_to_a_date", 1);
      }
      let r = guard(|| SolarDay::new(y as isize, m as usize, d as usize).is_ok());
      let got = match r {
        Ok(b) => b,
        Err(_) => false, // a panic is a refusal
      };
      if got {
        log.count("accept.accepted", 1);
      } else {
        log.count("accept.refused", 1);
      }
      if got != want {
        log.violate(
          format!("C01/accept/{:05}-{:02}-{:02}", y, m, d),
          "SolarDay::new",
          format!("({}, {}, {})", y, m, d),
          if got { "accepted".into() } else { "refused".into() },
          if want { "accepted".into() } else { "refused".into() },
        );
      }
    }
  }
}

fn check_year(y: i64, log: &mut Log) {
  log.ev(1);
  let r = guard(|| {
    let mut out: Vec<(String, String, String)> = vec![];
    let sy = SolarYear::from_year(y as isize);
    if sy.is_leap() != cal::is_leap(y) {
      out.push((format!("C01/leap/{:04}", y), format!("{}", sy.is_leap()), format!("{}", cal::is_leap(y))));
    }
    if sy.get_day_count() as i64 != cal::ydays(y) {
      out.push((format!("C01/year-length/{:04}", y), format!("{}", sy.get_day_count()), format!("{}", cal::ydays(y))));
    }
    for m in 1..=12i64 {
      let sm = SolarMonth::from_ym(y as isize, m as usize);
      if sm.get_day_count() as i64 != cal::mdays(y, m) {
        out.push((format!("C01/month-length/{:04}-{:02}", y, m), format!("{}", sm.get_day_count()), format!("{}", cal::mdays(y, m))));
      }
    }
    out
  });
  log.ev(12);
  match r {
    Ok(v) => {
      for (sig, o, e) in v {
        log.violate(sig, "lengths", format!("{}", y), o, e);
      }
    }
    Err(msg) => log.violate(format!("C01/panic-year/{:04}", y), "lengths", format!("{}", y), format!("panic: {}", msg), "no panic".into()),
  }
  if cal::is_leap(y) {
    log.count("lengths.leap_years", 1);
  }
}

/// histories: a single-thread sequence of 6..16 operations on related dates (the same date again, days a few
/// days / a month / a year away, the same month-day in a year that differs by a cycle or a power of two or ten,
/// month and day exchanged); fractional Julian dates of the evening, refused triples and length queries are mixed
/// in so that whatever they leave behind on the thread meets the next conversion
fn history(i: usize, cfg: &Cfg, log: &mut Log) {
  let c = cal();
  let mut rng = Rng::new(mix(cfg.seed, i as u64 ^ 0x1C01));
  let len = rng.range(6, 16);
  let mut n = crate::history::start_day(&mut rng);
  let key = format!("seq{}_{}", i, cal::fmt_dn(n));
  let mut trace: Vec<String> = vec![];
  let r = guard(|| {
    let mut out: Vec<(String, String)> = vec![];
    let mut judged = 0u64;
    for step in 0..len {
      let (y, m, d) = c.date(n);
      let name = cal::fmt_dn(n);
      match rng.below(9) {
        0 => {
          // an evening instant of day n as a fractional Julian date: the date is n, or n+1 once the instant rounds
          // up to midnight (23:59:59.5 and later)
          let ms = *rng.pick(&[0i64, 21_600_000, 43_200_000, 86_399_000, 86_399_400, 86_399_600, 86_399_900, 64_800_000]);
          let jd = n as f64 - 0.5 + ms as f64 / 86_400_000.0;
          let want = if ms >= 86_399_500 { n + 1 } else { n };
          trace.push(format!("jd({}+{}ms)", name, ms));
          // (the last half second of 9999-12-31 rounds to a date outside the range: not asked)
          if want <= LAST {
            let got = dn_of(&JulianDay::from_julian_day(jd).get_solar_day());
            judged += 1;
            if got != Some(want) {
              out.push((format!("step {} {}: Julian date {} -> {:?}", step, trace.join(" "), jd, got.map(cal::fmt_dn)), cal::fmt_dn(want)));
            }
          }
        }
        1 | 2 => {
          trace.push(format!("roundtrip({})", name));
          let sd = SolarDay::from_ymd(y as isize, m as usize, d as usize);
          let jd = sd.get_julian_day();
          let back = dn_of(&jd.get_solar_day());
          judged += 1;
          if jd.get_day() != n as f64 - 0.5 || back != Some(n) {
            out.push((format!("step {} {}: day count {} back {:?}", step, trace.join(" "), jd.get_day(), back.map(cal::fmt_dn)), format!("day count {} back {}", n as f64 - 0.5, name)));
          }
        }
        3 | 4 => {
          let t = crate::history::related_day(&mut rng, n);
          trace.push(format!("next({}, {:+})", name, t - n));
          let got = dn_of(&sd_of_dn(n).next((t - n) as isize));
          judged += 1;
          if got != Some(t) {
            out.push((format!("step {} {}: {:?}", step, trace.join(" "), got.map(cal::fmt_dn)), cal::fmt_dn(t)));
          }
        }
        5 => {
          let o = crate::history::related_day(&mut rng, n);
          trace.push(format!("subtract({}, {})", name, cal::fmt_dn(o)));
          let (a, b) = (sd_of_dn(n), sd_of_dn(o));
          let got = (a.subtract(b) as i64, a.is_before(b), a.is_after(b));
          judged += 1;
          if got != (n - o, n < o, n > o) {
            out.push((format!("step {} {}: {:?}", step, trace.join(" "), got), format!("{:?}", (n - o, n < o, n > o))));
          }
        }
        6 => {
          // a triple next to the date that does not exist, then the date itself
          let bad = (y, m, cal::nominal_mlen(y, m) + 1);
          trace.push(format!("refuse({:?}) accept({})", bad, name));
          let refused = guard(|| SolarDay::new(bad.0 as isize, bad.1 as usize, bad.2 as usize).is_ok()).map(|ok| !ok).unwrap_or(true);
          let ok = SolarDay::new(y as isize, m as usize, d as usize).map(|v| dn_of(&v));
          judged += 1;
          if !refused || ok != Ok(Some(n)) {
            out.push((format!("step {} {}: refused={} accepted={:?}", step, trace.join(" "), refused, ok), "refused, then accepted as itself".into()));
          }
        }
        7 => {
          trace.push(format!("lengths({:04}-{:02})", y, m));
          let got = (SolarMonth::from_ym(y as isize, m as usize).get_day_count() as i64, SolarYear::from_year(y as isize).get_day_count() as i64, SolarYear::from_year(y as isize).is_leap());
          judged += 1;
          if got != (cal::mdays(y, m), cal::ydays(y), cal::is_leap(y)) {
            out.push((format!("step {} {}: {:?}", step, trace.join(" "), got), format!("{:?}", (cal::mdays(y, m), cal::ydays(y), cal::is_leap(y)))));
          }
        }
        _ => {
          trace.push(format!("day-of-year({})", name));
          let got = sd_of_dn(n).get_index_in_year() as i64;
          judged += 1;
          if got != n - c.year_first(y) {
            out.push((format!("step {} {}: {}", step, trace.join(" "), got), format!("{}", n - c.year_first(y))));
          }
        }
      }
      if !out.is_empty() {
        break;
      }
      n = crate::history::related_day(&mut rng, n);
    }
    (out, judged)
  });
  log.ev(1);
  log.nt(1);
  match r {
    Ok((v, judged)) => {
      log.count("history.sequences", 1);
      log.count("history.answers_judged", judged);
      if let Some((o, e)) = v.into_iter().next() {
        log.violate(format!("C01/history/{}", key), "a sequence of conversions on related dates on one thread", key.clone(), o, e);
      }
    }
    Err(msg) => log.violate(format!("C01/panic-history/{}", key), "a sequence of conversions on related dates on one thread", key.clone(), format!("panic: {}", msg), "no panic".into()),
  }
}

pub fn run(cfg: &Cfg) -> (Log, Meta) {
  let mut log = Log::new();
  if let Err(e) = cal::self_test() {
    log.harness_error(&format!("oracle self-test failed: {}", e));
  }
  log.merge(par_range(TOTAL_DAYS, 4096, |i, l| check_date(BASE + i as i64, cfg, l)));
  // acceptance: every (y, m 0..13, d 0..32) for y 1..9999 and the out-of-range years
  let mut years: Vec<i64> = (1..=9999).collect();
  years.extend_from_slice(&[0, -1, -4, 10000, 10001]);
  log.merge(par_range(years.len(), 64, |i, l| check_triples(years[i], l)));
  log.merge(par_range(9999, 256, |i, l| check_year(i as i64 + 1, l)));
  let nh = cfg.tier.pick(40_000usize, 5_000_000usize);
  log.merge(par_range(nh, 200, |i, l| history(i, cfg, l)));
  log.floor("history.answers_judged", cfg.tier.pick(300_000, 7_000_000));
  log.floor("date.boundary_dates", 100_000);
  log.floor("date.october_1582_days", 21);
  log.floor("accept.accepted", 3_000_000);
  log.floor("accept.refused", 900_000);
  log.floor("lengths.leap_years", 2000);
  let partners = match cfg.tier {
    Tier::Quick => 1,
    Tier::Thorough => 30,
  };
  let meta = Meta {
    rule: format!(
      "exhaustive: every one of the 3,652,061 civil dates (day number by counting from 0001-01-01=1721424) is constructed, converted to its day count and back, stepped by 0,+-1 and {} fixed spans plus 2 seeded-random step counts, subtracted from / ordered against both neighbours, the first day of its month and year, {} seeded-random partner(s) and {} fixed spans; every (year 1..9999 and 0,-1,-4,10000,10001; month 0..13; day 0..32) triple is offered to SolarDay::new; every month and year length and leap flag is read; histories: {} seeded single-thread sequences of 6..16 operations (round trip, evening Julian dates up to 23:59:59.9, next, subtract / order, a refused neighbour triple then the date, lengths, day of year) on dates related to the previous one (same date, days / a month / a year away, same month-day in a year differing by a cycle, a power of two or ten or a digit, month and day exchanged), each answer judged. Non-trivial = month ends, Feb 28/29, Jan 1, Dec 31, 1582-09-20..1582-10-31, and refused triples adjacent (one field +-1) to an existing date.",
      STEPS.len(),
      partners,
      SPANS.len(),
      nh
    ),
    assumptions: vec![
      "the oracle calendar (Julian before 1582-10-05, Gregorian from 1582-10-15) is the harness' own model; it is cross-checked on every run against two closed-form JDN algorithms and fixed anchors".into(),
      "a panic inside the library counts as a refusal for acceptance and as a violation everywhere else".into(),
    ],
    exhaustive: true,
  };
  (log, meta)
}
