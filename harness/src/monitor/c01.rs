//! C01 — civil calendar and day count agree for every date 0001-9999.
use crate::api::*;
use crate::log::Log;
use crate::model::cal::{self, cal, BASE, FIRST, LAST, TOTAL_DAYS};
use crate::util::{guard, mix, par_range, Rng};
use crate::{Cfg, Meta, Tier};
use tyme4rs::tyme::jd::JulianDay;
use tyme4rs::tyme::solar::{SolarDay, SolarMonth, SolarYear};
use tyme4rs::tyme::Tyme;

const STEPS: [i64; 28] = [2, -2, 7, -7, 28, -28, 29, -29, 30, -30, 31, -31, 59, -59, 365, -365, 366, -366, 1461, -1461, 36525, -36525, 146097, -146097, 10, -10, 355, -355];
const SPANS: [i64; 10] = [31, -31, 365, -365, 1461, -1461, 36524, -36524, 146097, -146097];

fn check_date(n: i64, cfg: &Cfg, log: &mut Log) {
  let c = cal();
  let (y, m, d) = c.date(n);
  let key = cal::fmt_date(y, m, d);
  log.ev(1);
  let special = d == cal::nominal_mlen(y, m) || (m == 2 && d >= 28) || (m == 1 && d == 1) || (m == 12 && d == 31) || (y == 1582 && ((m == 9 && d >= 20) || m == 10));
  if special {
    log.nt(1);
    log.count("date.boundary_dates", 1);
  }
  if y == 1582 && m == 10 {
    log.count("date.october_1582_days", 1);
  }
  let r = guard(|| {
    let mut out: Vec<(&'static str, String, String, String)> = Vec::new();
    let sd = match SolarDay::new(y as isize, m as usize, d as usize) {
      Ok(v) => v,
      Err(e) => {
        out.push(("accept", key.clone(), format!("refused: {}", e), "accepted".into()));
        return out;
      }
    };
    // day count
    let jd = sd.get_julian_day().get_day();
    if jd != n as f64 - 0.5 {
      out.push(("jd", key.clone(), format!("{}", jd), format!("{}", n as f64 - 0.5)));
    }
    // back
    let back = ymd(&JulianDay::from_julian_day(n as f64 - 0.5).get_solar_day());
    if back != (y, m, d) {
      out.push(("roundtrip", key.clone(), fmt_ymd(back), key.clone()));
    }
    // a noon-valued and a late-evening Julian date of the same civil day map to the same date
    let back2 = ymd(&JulianDay::from_julian_day(n as f64).get_solar_day());
    if back2 != (y, m, d) {
      out.push(("roundtrip-noon", key.clone(), fmt_ymd(back2), key.clone()));
    }
    // neighbours
    let mut rng = Rng::new(mix(cfg.seed, n as u64));
    let partners = cfg.tier.pick(1, 10);
    let mut others: Vec<i64> = vec![];
    if n > FIRST {
      others.push(n - 1);
    }
    if n < LAST {
      others.push(n + 1);
    }
    for _ in 0..partners {
      others.push(rng.range(FIRST, LAST));
    }
    // a partner in the same year / same month exercises the later comparison branches
    others.push(c.dn(y, m, 1));
    others.push(c.year_first(y));
    for &o in &others {
      let od = sd_of_dn(o);
      let diff = sd.subtract(od) as i64;
      if diff != n - o {
        out.push(("subtract", format!("{}_minus_{}", key, cal::fmt_dn(o)), format!("{}", diff), format!("{}", n - o)));
      }
      let (b, a) = (sd.is_before(od), sd.is_after(od));
      if b != (n < o) || a != (n > o) {
        out.push(("order", format!("{}_vs_{}", key, cal::fmt_dn(o)), format!("before={} after={}", b, a), format!("before={} after={}", n < o, n > o)));
      }
    }
    for &s in SPANS.iter() {
      let o = n - s;
      if c.in_range(o) {
        let diff = sd.subtract(sd_of_dn(o)) as i64;
        if diff != s {
          out.push(("subtract", format!("{}_minus_{}", key, cal::fmt_dn(o)), format!("{}", diff), format!("{}", s)));
        }
      }
    }
    // stepping
    let mut steps: Vec<i64> = vec![0, 1, -1];
    steps.extend_from_slice(&STEPS);
    steps.push(rng.range(-3_652_060, 3_652_060));
    steps.push(rng.range(-400, 400));
    for &s in &steps {
      let t = n + s;
      if !c.in_range(t) {
        continue;
      }
      let got = ymd(&sd.next(s as isize));
      if got != c.date(t) {
        out.push(("next", format!("{}_step_{:+}", key, s), fmt_ymd(got), cal::fmt_dn(t)));
      }
    }
    // day of year
    let doy = sd.get_index_in_year() as i64;
    if doy != n - c.year_first(y) {
      out.push(("day-of-year", key.clone(), format!("{}", doy), format!("{}", n - c.year_first(y))));
    }
    out
  });
  match r {
    Ok(v) => {
      for (mon, k, obs, exp) in v {
        log.violate(format!("C01/{}/{}", mon, k), mon, key.clone(), obs, exp);
      }
    }
    Err(msg) => log.violate(format!("C01/panic/{}", key), "date-sweep", key.clone(), format!("panic: {}", msg), "no panic".into()),
  }
  log.sample(|| format!("date {} = day number {} (jd {}), weekday {}, stepped by {:?}..", key, n, n as f64 - 0.5, cal::weekday(n), &STEPS[..4]));
}

fn check_triples(y: i64, log: &mut Log) {
  for m in 0..=13i64 {
    for d in 0..=32i64 {
      log.ev(1);
      let want = cal::exists(y, m, d);
      // single-field neighbours of an existing date are the interesting refusals
      if !want && (cal::exists(y, m, d - 1) || cal::exists(y, m, d + 1) || cal::exists(y, m - 1, d) || cal::exists(y, m + 1, d) || cal::exists(y - 1, m, d) || cal::exists(y + 1, m, d)) {
        log.nt(1);
        log.count("accept.refusals_adjacent_to_a_date", 1);
      }
      let r = guard(|| SolarDay::new(y as isize, m as usize, d as usize).is_ok());
      let got = match r {
        Ok(b) => b,
        Err(_) => false, // a panic is a refusal
      };
      if got {
        log.count("accept.accepted", 1);
      } else {
        log.count("accept.refused", 1);
      }
      if got != want {
        log.violate(
          format!("C01/accept/{:05}-{:02}-{:02}", y, m, d),
          "SolarDay::new",
          format!("({}, {}, {})", y, m, d),
          if got { "accepted".into() } else { "refused".into() },
          if want { "accepted".into() } else { "refused".into() },
        );
      }
    }
  }
}

fn check_year(y: i64, log: &mut Log) {
  log.ev(1);
  let r = guard(|| {
    let mut out: Vec<(String, String, String)> = vec![];
    let sy = SolarYear::from_year(y as isize);
    if sy.is_leap() != cal::is_leap(y) {
      out.push((format!("C01/leap/{:04}", y), format!("{}", sy.is_leap()), format!("{}", cal::is_leap(y))));
    }
    if sy.get_day_count() as i64 != cal::ydays(y) {
      out.push((format!("C01/year-length/{:04}", y), format!("{}", sy.get_day_count()), format!("{}", cal::ydays(y))));
    }
    for m in 1..=12i64 {
      let sm = SolarMonth::from_ym(y as isize, m as usize);
      if sm.get_day_count() as i64 != cal::mdays(y, m) {
        out.push((format!("C01/month-length/{:04}-{:02}", y, m), format!("{}", sm.get_day_count()), format!("{}", cal::mdays(y, m))));
      }
    }
    out
  });
  log.ev(12);
  match r {
    Ok(v) => {
      for (sig, o, e) in v {
        log.violate(sig, "lengths", format!("{}", y), o, e);
      }
    }
    Err(msg) => log.violate(format!("C01/panic-year/{:04}", y), "lengths", format!("{}", y), format!("panic: {}", msg), "no panic".into()),
  }
  if cal::is_leap(y) {
    log.count("lengths.leap_years", 1);
  }
}

pub fn run(cfg: &Cfg) -> (Log, Meta) {
  let mut log = Log::new();
  if let Err(e) = cal::self_test() {
    log.harness_error(&format!("oracle self-test failed: {}", e));
  }
  log.merge(par_range(TOTAL_DAYS, 4096, |i, l| check_date(BASE + i as i64, cfg, l)));
  // acceptance: every (y, m 0..13, d 0..32) for y 1..9999 and the out-of-range years
  let mut years: Vec<i64> = (1..=9999).collect();
  years.extend_from_slice(&[0, -1, -4, 10000, 10001]);
  log.merge(par_range(years.len(), 64, |i, l| check_triples(years[i], l)));
  log.merge(par_range(9999, 256, |i, l| check_year(i as i64 + 1, l)));
  log.floor("date.boundary_dates", 100_000);
  log.floor("date.october_1582_days", 21);
  log.floor("accept.accepted", 3_000_000);
  log.floor("accept.refused", 900_000);
  log.floor("lengths.leap_years", 2000);
  let partners = match cfg.tier {
    Tier::Quick => 1,
    Tier::Thorough => 10,
  };
  let meta = Meta {
    rule: format!(
      "exhaustive: every one of the 3,652,061 civil dates (day number by counting from 0001-01-01=1721424) is constructed, converted to its day count and back, stepped by 0,+-1 and {} fixed spans plus 2 seeded-random step counts, subtracted from / ordered against both neighbours, the first day of its month and year, {} seeded-random partner(s) and {} fixed spans; every (year 1..9999 and 0,-1,-4,10000,10001; month 0..13; day 0..32) triple is offered to SolarDay::new; every month and year length and leap flag is read. Non-trivial = month ends, Feb 28/29, Jan 1, Dec 31, 1582-09-20..1582-10-31, and refused triples adjacent (one field +-1) to an existing date.",
      STEPS.len(),
      partners,
      SPANS.len()
    ),
    assumptions: vec![
      "the oracle calendar (Julian before 1582-10-05, Gregorian from 1582-10-15) is the harness' own model; it is cross-checked on every run against two closed-form JDN algorithms and fixed anchors".into(),
      "a panic inside the library counts as a refusal for acceptance and as a violation everywhere else".into(),
    ],
    exhaustive: true,
  };
  (log, meta)
}
