//! C06 — every day belongs to exactly one solar term: ordered, evenly spaced, consistent.
use crate::api::*;
use crate::log::Log;
use crate::model::cal::{self, cal, FIRST, LAST};
use crate::model::terms::{terms, Terms};
use crate::monitor::day_sample_years;
use crate::util::{guard, mix, par_range, Rng};
use crate::{Cfg, Meta, Tier};
use tyme4rs::tyme::solar::{SolarTerm, SOLAR_TERM_NAMES};
use tyme4rs::tyme::{Culture, Tyme};

fn term_key(y: i64, i: i64) -> String {
  format!("{:05}-{:02}", y, i)
}

/// (a) order and spacing of the whole list
fn check_sequence(log: &mut Log) {
  let t = terms();
  for w in t.v.windows(2) {
    log.ev(1);
    let gap = w[1].jd - w[0].jd;
    if !(gap > 14.6 && gap < 15.8) {
      log.violate(format!("C06/spacing/{}", term_key(w[0].y, w[0].i)), "successive term instants", format!("({}, {}) -> ({}, {})", w[0].y, w[0].i, w[1].y, w[1].i), format!("{:.4} days apart", gap), "14.6 .. 15.8 days".into());
    }
    if w[1].dn <= w[0].dn {
      log.violate(format!("C06/order/{}", term_key(w[0].y, w[0].i)), "term days", format!("({}, {})", w[0].y, w[0].i), format!("day {} then day {}", w[0].dn, w[1].dn), "strictly increasing".into());
    }
    if w[1].i == 0 {
      log.count("sequence.year_joins", 1);
      log.nt(1);
    }
  }
  log.count("sequence.terms", t.v.len() as u64);
}

/// (b) stepping, names, parity for term k
fn check_term(k: usize, cfg: &Cfg, full: bool, log: &mut Log) {
  let t = terms();
  let cur = t.v[k];
  let key = term_key(cur.y, cur.i);
  let mut steps: Vec<i64> = vec![0, 1, -1, 2, -2, 23, -23, 24, -24, 25, -25];
  if full {
    steps = (-50..=50).collect();
    steps.extend_from_slice(&[240, -240, 2400, -2400]);
  }
  let mut rng = Rng::new(mix(cfg.seed, k as u64 ^ 0xC06));
  steps.push(rng.range(-(k as i64), (t.v.len() - 1 - k) as i64));
  let r = guard(|| {
    let mut out: Vec<(&'static str, String, String, String)> = vec![];
    let st = SolarTerm::from_index(cur.y as isize, cur.i as isize);
    if st.is_jie() != (cur.i % 2 == 1) || st.is_qi() != (cur.i % 2 == 0) {
      out.push(("parity", key.clone(), format!("jie={} qi={}", st.is_jie(), st.is_qi()), format!("jie={} qi={}", cur.i % 2 == 1, cur.i % 2 == 0)));
    }
    let name = SOLAR_TERM_NAMES[cur.i as usize];
    if st.get_name() != name {
      out.push(("name", key.clone(), st.get_name(), name.to_string()));
    }
    let by_name = SolarTerm::from_name(cur.y as isize, name);
    if by_name.get_index() as i64 != cur.i || by_name.get_julian_day().get_day() != cur.jd {
      out.push(("from-name", key.clone(), format!("index {} jd {}", by_name.get_index(), by_name.get_julian_day().get_day()), format!("index {} jd {}", cur.i, cur.jd)));
    }
    // index normalisation: (y, i + 24k) is (y + k, i)
    for kk in [-1i64, 1, 3] {
      if cur.y + kk < 1 || cur.y + kk > 10000 {
        continue;
      }
      let alt = SolarTerm::from_index((cur.y + kk) as isize, (cur.i - 24 * kk) as isize);
      if alt.get_year() as i64 != cur.y || alt.get_index() as i64 != cur.i || alt.get_julian_day().get_day() != cur.jd {
        out.push(("index-normalisation", format!("{}_alt_{:+}", key, kk), format!("({}, {}) jd {}", alt.get_year(), alt.get_index(), alt.get_julian_day().get_day()), format!("({}, {}) jd {}", cur.y, cur.i, cur.jd)));
      }
    }
    for &s in &steps {
      let j = k as i64 + s;
      // stay where the oracle list has the answer and years are >= 1 (year arithmetic of next uses truncating division)
      if j < 24 || j >= t.v.len() as i64 || cur.y < 1 {
        continue;
      }
      let want = t.v[j as usize];
      let got = st.next(s as isize);
      if got.get_year() as i64 != want.y || got.get_index() as i64 != want.i || got.get_julian_day().get_day() != want.jd {
        out.push(("next", format!("{}_step_{:+}", key, s), format!("({}, {}) jd {}", got.get_year(), got.get_index(), got.get_julian_day().get_day()), format!("({}, {}) jd {}", want.y, want.i, want.jd)));
      }
    }
    out
  });
  log.ev(steps.len() as u64 + 3);
  log.count("term.step_checks", steps.len() as u64);
  match r {
    Ok(v) => {
      for (mon, kk, o, e) in v {
        log.violate(format!("C06/{}/{}", mon, kk), mon, key.clone(), o, e);
      }
    }
    Err(msg) => log.violate(format!("C06/panic-term/{}", key), "term", key.clone(), format!("panic: {}", msg), "no panic".into()),
  }
}

/// (c) day -> (term, day index) for every day of civil year y
fn check_days_of_year(y: i64, log: &mut Log) {
  let t = terms();
  let c = cal();
  let lo = c.year_first(y);
  let hi = if y == 9999 { LAST } else { c.year_first(y + 1) - 1 };
  for n in lo..=hi {
    log.ev(1);
    let key = cal::fmt_dn(n);
    let g = match t.governing_day(n) {
      Some(g) => t.v[g],
      None => continue,
    };
    let want = (g.y, g.i, n - g.dn);
    if want.2 == 0 {
      log.count("day.term_days_seen", 1);
      log.nt(1);
    }
    if want.2 >= 15 {
      log.count("day.index_15_or_16_seen", 1);
      log.nt(1);
    }
    let r = guard(|| {
      let td = sd_of_dn(n).get_term_day();
      let st = td.get_solar_term();
      (st.get_year() as i64, st.get_index() as i64, td.get_day_index() as i64, sd_of_dn(n).get_term().get_index() as i64)
    });
    match r {
      Ok((gy, gi, gd, gi2)) => {
        if (gy, gi, gd) != want {
          log.violate(format!("C06/term-day/{}", key), "SolarDay::get_term_day", key.clone(), format!("term ({}, {}) day index {}", gy, gi, gd), format!("term ({}, {}) day index {}", want.0, want.1, want.2));
        }
        if gd > 16 {
          log.violate(format!("C06/day-index-bound/{}", key), "SolarDay::get_term_day", key.clone(), format!("{}", gd), "<= 16".into());
        }
        if gi2 != gi {
          log.violate(format!("C06/get-term/{}", key), "SolarDay::get_term", key.clone(), format!("{}", gi2), format!("{}", gi));
        }
      }
      Err(msg) => log.violate(format!("C06/term-day/{}", key), "SolarDay::get_term_day", key.clone(), format!("panic: {}", msg), format!("term ({}, {}) day index {}", want.0, want.1, want.2)),
    }
    log.sample(|| format!("{} -> term ({}, {} {}) day index {}", key, want.0, want.1, SOLAR_TERM_NAMES[want.1 as usize], want.2));
  }
}

fn probe_instant(a: i64, log: &mut Log, what: &'static str) {
  let t = terms();
  let n = a.div_euclid(86400);
  if n < FIRST || n > LAST {
    return;
  }
  let g = match t.governing_sec(a) {
    Some(g) => t.v[g],
    None => return,
  };
  log.ev(1);
  log.count(what, 1);
  let key = fmt_abs(a);
  let r = guard(|| {
    let st = st_of_abs(a).get_term();
    (st.get_year() as i64, st.get_index() as i64)
  });
  match r {
    Ok(got) => {
      if got != (g.y, g.i) {
        log.violate(format!("C06/term-of-instant/{}", key), "SolarTime::get_term", key.clone(), format!("({}, {})", got.0, got.1), format!("({}, {}) which starts at {}", g.y, g.i, fmt_abs(g.sec)));
      }
    }
    Err(msg) => log.violate(format!("C06/term-of-instant/{}", key), "SolarTime::get_term", key.clone(), format!("panic: {}", msg), format!("({}, {})", g.y, g.i)),
  }
}

/// (d) instants around term k and random instants between k and k+1
fn check_instants(k: usize, cfg: &Cfg, log: &mut Log) {
  let t = terms();
  let cur = t.v[k];
  if cur.ambiguous {
    log.count("instant.terms_skipped_rounding_ambiguous", 1);
    return;
  }
  probe_instant(cur.sec - 1, log, "instant.second_before_term");
  probe_instant(cur.sec, log, "instant.second_of_term");
  probe_instant(cur.sec + 1, log, "instant.second_after_term");
  log.nt(3);
  if k + 1 < t.v.len() {
    let mut rng = Rng::new(mix(cfg.seed, k as u64 ^ 0x1C06));
    let nx = t.v[k + 1];
    if nx.sec > cur.sec + 2 {
      probe_instant(rng.range(cur.sec + 2, nx.sec - 2), log, "instant.random");
      // midnight and last second of the term day
      probe_instant((cur.dn + 1) * 86400 - 1, log, "instant.day_edges");
      probe_instant((cur.dn + 1) * 86400, log, "instant.day_edges");
    }
  }
}

/// (e) histories: a seeded sequence of 4..14 term constructions (raw index -30..53 on the years around y0, by
/// name, by stepping the previous result) interleaved with day and instant look-ups on the same years, all on one
/// thread; every answer must be the one the table gives, whatever was constructed just before
fn term_history(i: usize, cfg: &Cfg, log: &mut Log) {
  let t = terms();
  let c = cal();
  let mut rng = Rng::new(mix(cfg.seed, i as u64 ^ 0x2C06));
  let y0 = rng.range(3, 9995);
  let nops = rng.range(4, 14);
  let key = format!("seq{}_y{}", i, y0);
  // draw the ops first so that the sequence does not depend on what the library returns
  #[derive(Clone, Copy, Debug)]
  enum Op {
    Index(i64, i64),
    Name(i64, i64),
    Step(i64),
    Day(i64),
    Instant(i64),
  }
  let mut ops: Vec<Op> = vec![];
  let mut follow: Option<i64> = None;
  for _ in 0..nops {
    let y = match follow.take() {
      Some(y) => y,
      None => y0 + rng.range(-1, 1),
    };
    match rng.below(6) {
      0 | 1 => {
        let raw = if rng.below(2) == 0 { rng.range(-30, 53) } else { rng.range(0, 23) };
        if (raw < 0 || raw > 23) && rng.below(3) != 0 {
          follow = Some(y);
        }
        ops.push(Op::Index(y, raw));
      }
      2 => ops.push(Op::Name(y, rng.range(0, 23))),
      3 => ops.push(Op::Step(rng.range(-30, 30))),
      4 => ops.push(Op::Day(c.year_first(y) + rng.range(0, 354))),
      _ => ops.push(Op::Instant((c.year_first(y) + rng.range(0, 354)) * 86400 + rng.range(0, 86399))),
    }
  }
  let r = guard(|| {
    let mut out: Vec<(String, String)> = vec![];
    let mut last: Option<(SolarTerm, i64)> = None;
    let mut answered = 0u64;
    let mut wrapped = 0u64;
    for (n, op) in ops.iter().enumerate() {
      let judge_term = |st: &SolarTerm, k: i64, out: &mut Vec<(String, String)>| {
        let want = t.v[k as usize];
        if st.get_year() as i64 != want.y || st.get_index() as i64 != want.i || st.get_julian_day().get_day() != want.jd {
          out.push((format!("op {} {:?}: ({}, {}) jd {}", n, op, st.get_year(), st.get_index(), st.get_julian_day().get_day()), format!("({}, {}) jd {}", want.y, want.i, want.jd)));
        }
      };
      match *op {
        Op::Index(y, raw) => {
          let k = Terms::idx(y, 0) as i64 + raw;
          // stay inside the table and in years >= 1 (as the stepping checks of (b) do)
          if k < 24 || k >= t.v.len() as i64 {
            continue;
          }
          let st = SolarTerm::from_index(y as isize, raw as isize);
          judge_term(&st, k, &mut out);
          if raw < 0 || raw > 23 {
            wrapped += 1;
          }
          last = Some((st, k));
          answered += 1;
        }
        Op::Name(y, ix) => {
          let k = Terms::idx(y, ix) as i64;
          let st = SolarTerm::from_name(y as isize, SOLAR_TERM_NAMES[ix as usize]);
          judge_term(&st, k, &mut out);
          last = Some((st, k));
          answered += 1;
        }
        Op::Step(s) => {
          if let Some((st, k)) = last.take() {
            if k + s < 24 || k + s >= t.v.len() as i64 {
              last = Some((st, k));
              continue;
            }
            let nx = st.next(s as isize);
            judge_term(&nx, k + s, &mut out);
            last = Some((nx, k + s));
            answered += 1;
          }
        }
        Op::Day(dn) => {
          if let Some(g) = t.governing_day(dn) {
            let g = t.v[g];
            let td = sd_of_dn(dn).get_term_day();
            let st = td.get_solar_term();
            let got = (st.get_year() as i64, st.get_index() as i64, td.get_day_index() as i64, st.get_julian_day().get_day());
            if got != (g.y, g.i, dn - g.dn, g.jd) {
              out.push((format!("op {} day {}: term ({}, {}) day index {} jd {}", n, cal::fmt_dn(dn), got.0, got.1, got.2, got.3), format!("term ({}, {}) day index {} jd {}", g.y, g.i, dn - g.dn, g.jd)));
            }
            answered += 1;
          }
        }
        Op::Instant(a) => {
          if let Some(gi) = t.governing_sec(a) {
            let g = t.v[gi];
            let near = a - g.sec < 2 || (gi + 1 < t.v.len() && t.v[gi + 1].sec - a < 2);
            if !near {
              let st = st_of_abs(a).get_term();
              if (st.get_year() as i64, st.get_index() as i64) != (g.y, g.i) || st.get_julian_day().get_day() != g.jd {
                out.push((format!("op {} instant {}: term ({}, {}) jd {}", n, fmt_abs(a), st.get_year(), st.get_index(), st.get_julian_day().get_day()), format!("term ({}, {}) jd {}", g.y, g.i, g.jd)));
              }
              answered += 1;
            }
          }
        }
      }
    }
    (out, answered, wrapped)
  });
  log.ev(1);
  log.nt(1);
  match r {
    Ok((v, answered, wrapped)) => {
      log.count("history.sequences", 1);
      log.count("history.answers_judged", answered);
      log.count("history.constructions_with_an_index_outside_0_23", wrapped);
      if let Some((o, e)) = v.into_iter().next() {
        log.violate(format!("C06/history/{}", key), "a sequence of term constructions and look-ups on one thread", format!("{} ops {:?}", key, ops), o, e);
      }
    }
    Err(msg) => log.violate(format!("C06/panic-history/{}", key), "a sequence of term constructions and look-ups on one thread", format!("{} ops {:?}", key, ops), format!("panic: {}", msg), "no panic".into()),
  }
}

pub fn run(cfg: &Cfg) -> (Log, Meta) {
  let mut log = Log::new();
  if let Err(e) = cal::self_test() {
    log.harness_error(&format!("oracle self-test failed: {}", e));
  }
  let t = terms();
  for e in &t.errors {
    log.violate(format!("C06/enumerate/{}", crate::util::fnv(e) % 100000), "SolarTerm::from_index", e.clone(), "failed".into(), "every term of years 0..10000 constructible with its own (year, index)".into());
  }
  if !t.errors.is_empty() {
    let meta = Meta { rule: "term enumeration failed".into(), assumptions: vec![], exhaustive: false };
    log.ev(1);
    return (log, meta);
  }
  check_sequence(&mut log);
  let mono = t.monotonic();
  if !mono {
    log.note("term list is not strictly increasing: day/instant mapping monitors skipped (their oracle needs a sorted list); the order violations above are the verdict".into());
  }
  if t.ambiguous > 0 {
    log.note(format!("{} term instants lie within float noise of a half second; second-level probes skip them", t.ambiguous));
  }
  let sample = day_sample_years(cfg);
  let full_steps_years: Vec<i64> = match cfg.tier {
    Tier::Thorough => (1..=9999).collect(),
    Tier::Quick => (1..=9999).filter(|y| y % 40 == (cfg.seed % 40) as i64).collect(),
  };
  // (b) every term of years 1..=9999 with the short step list; the wide window on the selected years
  log.merge(par_range(t.v.len(), 240, |k, l| {
    let y = t.v[k].y;
    if y < 1 || y > 9999 {
      return;
    }
    let full = full_steps_years.binary_search(&y).is_ok();
    check_term(k, cfg, full, l);
  }));
  if mono {
    // (c)
    let years: Vec<i64> = match cfg.tier {
      Tier::Thorough => (1..=9999).collect(),
      Tier::Quick => sample.clone(),
    };
    log.merge(par_range(years.len(), 2, |i, l| check_days_of_year(years[i], l)));
    // (d)
    log.merge(par_range(t.v.len(), 48, |k, l| {
      let y = t.v[k].y;
      let take = match cfg.tier {
        Tier::Thorough => true,
        Tier::Quick => sample.binary_search(&y).is_ok(),
      };
      if take && (1..=9999).contains(&y) {
        check_instants(k, cfg, l);
      }
    }));
    // (e)
    log.merge(par_range(cfg.tier.pick(20_000usize, 400_000usize), 100, |i, l| term_history(i, cfg, l)));
    log.floor("history.answers_judged", cfg.tier.pick(100_000, 2_000_000));
    log.floor("history.constructions_with_an_index_outside_0_23", cfg.tier.pick(10_000, 200_000));
    log.floor("day.term_days_seen", cfg.tier.pick(5_000, 200_000));
    log.floor("day.index_15_or_16_seen", cfg.tier.pick(1_000, 40_000));
    log.floor("instant.second_before_term", cfg.tier.pick(5_000, 200_000));
  }
  log.floor("sequence.terms", 240_000);
  log.floor("sequence.year_joins", 9_999);
  log.floor("term.step_checks", cfg.tier.pick(2_000_000, 20_000_000));
  let meta = Meta {
    rule: format!(
      "all {} terms of years 0..10000 enumerated (order, 14.6-15.8 d spacing incl. year joins); every term of years 1..9999: parity, name lookup, index normalisation, next(n) for 0,+-1,+-2,+-23..25 and one seeded-random n, and the full window -50..50,+-240,+-2400 on {} years; day->(term, index) for every civil day of {} years{}; instants: second before/of/after every term instant, one random instant and the day edges per term of the same years; histories: {} seeded single-thread sequences of 4..14 operations (construction by raw index -30..53 / by name / by stepping the previous result, day and instant look-ups on the same three years; an out-of-range construction is usually followed by an operation on the same raw year) - every answer vs the table. Non-trivial = year joins, term days (index 0), indices 15/16, the three seconds around each term instant (counted).",
      t.v.len(),
      full_steps_years.len(),
      match cfg.tier {
        Tier::Thorough => 9999,
        Tier::Quick => sample.len(),
      },
      match cfg.tier {
        Tier::Thorough => " (exhaustive)",
        Tier::Quick => " (years = seed mod 20, 1-30, 1570-1600, 3430-3445, 7260-7290, 9990-9999)",
      },
      cfg.tier.pick(20_000, 400_000)
    ),
    assumptions: vec![
      "term instants are the library's own (C05 checks the astronomy); the oracle only decides which of them governs a day/instant".into(),
      "term day = civil day of the instant rounded to the nearest second (library convention, DESIGN section 3)".into(),
    ],
    exhaustive: cfg.tier == Tier::Thorough,
  };
  let _ = Terms::idx;
  (log, meta)
}
