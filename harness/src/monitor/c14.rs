//! C14 — weeks of a month: seven consecutive days, right start weekday, no day lost.
use crate::api::*;
use crate::log::Log;
use crate::model::cal::{self, cal, weekday, FIRST, LAST};
use crate::model::lunar_seq::lunar_seq;
use crate::util::{guard, mix, par_range, Rng};
use crate::{Cfg, Meta, Tier};
use tyme4rs::tyme::lunar::{LunarMonth, LunarWeek};
use tyme4rs::tyme::solar::{SolarMonth, SolarWeek};
use tyme4rs::tyme::Tyme;

type V = Vec<(String, String, String)>;

/// first day of the 7-day block (starting on weekday s) that contains day n
#[inline]
fn block_start(n: i64, s: i64) -> i64 {
  n - (weekday(n) - s).rem_euclid(7)
}

fn solar_month(mi: usize, cfg: &Cfg, log: &mut Log) {
  let c = cal();
  let y = (mi / 12) as i64 + 1;
  let m = (mi % 12) as i64 + 1;
  let first = c.month_first[mi];
  let last = c.month_first[mi + 1] - 1;
  let mkey = format!("{:04}-{:02}", y, m);
  let date_starts: &[i64] = match cfg.tier {
    Tier::Quick => &[0, 1, 6],
    Tier::Thorough => &[0, 1, 2, 3, 4, 5, 6],
  };
  log.ev(7);
  log.count("solar.month_start_combinations", 7);
  let r = guard(|| {
    let mut out: V = vec![];
    let sm = SolarMonth::from_ym(y as isize, m as usize);
    for s in 0..7i64 {
      let b0 = block_start(first, s);
      let count = (block_start(last, s) - b0) / 7 + 1;
      let skey = format!("{}_start{}", mkey, s);
      let wc = sm.get_week_count(s as usize) as i64;
      if wc != count {
        out.push((format!("C14/week-count/{}", skey), format!("{}", wc), format!("{}", count)));
      }
      let weeks = sm.get_weeks(s as usize);
      if weeks.len() as i64 != count {
        out.push((format!("C14/weeks-list/{}", skey), format!("{} weeks", weeks.len()), format!("{}", count)));
      }
      let mut covered_to = first - 1;
      for (i, w) in weeks.iter().enumerate() {
        let want_first = b0 + 7 * i as i64;
        let fd = w.get_first_day();
        let f = dn_of(&fd);
        if f != Some(want_first) {
          out.push((format!("C14/week-first-day/{}_{}", skey, i), format!("{:?}", f.map(cal::fmt_dn)), cal::fmt_dn(want_first)));
        }
        if fd.get_week().get_index() as i64 != s {
          out.push((format!("C14/week-start-weekday/{}_{}", skey, i), format!("{}", fd.get_week().get_index()), format!("{}", s)));
        }
        let ds: Vec<Option<i64>> = w.get_days().iter().map(dn_of).collect();
        let wd: Vec<Option<i64>> = (0..7).map(|k| Some(want_first + k)).collect();
        if ds != wd {
          out.push((format!("C14/week-days/{}_{}", skey, i), format!("{:?}", ds), "7 consecutive days from the first day".into()));
        }
        if w.get_index() != i || w.get_start().get_index() as i64 != s || w.get_year() as i64 != y || w.get_month() as i64 != m {
          out.push((format!("C14/week-identity/{}_{}", skey, i), format!("index {} start {} {}-{}", w.get_index(), w.get_start().get_index(), w.get_year(), w.get_month()), format!("index {} start {} {}-{}", i, s, y, m)));
        }
        if want_first <= covered_to + 1 && want_first + 6 > covered_to {
          covered_to = want_first + 6;
        }
      }
      if covered_to < last {
        out.push((format!("C14/coverage/{}", skey), format!("covered up to {}", cal::fmt_dn(covered_to.clamp(FIRST, LAST))), format!("every day up to {}", cal::fmt_dn(last))));
      }
      // index = count is refused, so is a start of 7
      if count < 6 && SolarWeek::new(y as isize, m as usize, count as usize, s as usize).is_ok() {
        out.push((format!("C14/refuse-index/{}", skey), format!("index {} accepted", count), "refused".into()));
      }
    }
    if SolarWeek::new(y as isize, m as usize, 0, 7).is_ok() || SolarWeek::new(y as isize, m as usize, 6, 0).is_ok() {
      out.push((format!("C14/refuse-args/{}", mkey), "start 7 or index 6 accepted".into(), "refused".into()));
    }
    // date -> week
    for n in first..=last {
      for &s in date_starts {
        let w = sd_of_dn(n).get_solar_week(s as usize);
        let f = dn_of(&w.get_first_day());
        let want = block_start(n, s);
        let idx = (want - block_start(first, s)) / 7;
        if f != Some(want) || w.get_index() as i64 != idx || w.get_month() as i64 != m || w.get_year() as i64 != y {
          out.push((format!("C14/week-of-date/{}_start{}", cal::fmt_dn(n), s), format!("week {} of {}-{} starting {:?}", w.get_index(), w.get_year(), w.get_month(), f.map(cal::fmt_dn)), format!("week {} of {}-{} starting {}", idx, y, m, cal::fmt_dn(want))));
        }
      }
    }
    out
  });
  log.ev((last - first + 1) as u64 * date_starts.len() as u64);
  log.count("solar.date_to_week_lookups", (last - first + 1) as u64 * date_starts.len() as u64);
  if weekday(first) == 0 || last - first + 1 == 28 || (y == 1582 && m == 10) {
    log.nt(1);
    log.count("solar.edge_months", 1);
  }
  match r {
    Ok(v) => {
      for (sig, o, e) in v {
        log.violate(sig, "solar weeks", mkey.clone(), o, e);
      }
    }
    Err(msg) => log.violate(format!("C14/panic-month/{}", mkey), "solar weeks", mkey.clone(), format!("panic: {}", msg), "no panic".into()),
  }
  log.sample(|| format!("civil month {}: first day weekday {}, {} days; weeks for 7 start days and date->week for starts {:?}", mkey, weekday(first), last - first + 1, date_starts));
}

const STEP_SET: [i64; 27] = [-60, -53, -52, -27, -10, -6, -5, -4, -3, -2, -1, 0, 1, 2, 3, 4, 5, 6, 10, 26, 27, 52, 53, 60, -13, 13, 30];

fn solar_steps(mi: usize, cfg: &Cfg, log: &mut Log) {
  let c = cal();
  let y = (mi / 12) as i64 + 1;
  let m = (mi % 12) as i64 + 1;
  let first = c.month_first[mi];
  let last = c.month_first[mi + 1] - 1;
  let mut rng = Rng::new(mix(cfg.seed, mi as u64 ^ 0xC14));
  let s = rng.range(0, 6);
  let b0 = block_start(first, s);
  let count = (block_start(last, s) - b0) / 7 + 1;
  let jan1 = c.year_first(y);
  for i in 0..count {
    let f = b0 + 7 * i;
    let key = format!("{:04}-{:02}_start{}_{}", y, m, s, i);
    log.ev(1);
    log.count("solar.week_step_origins", 1);
    log.nt_distinct(mix(mi as u64, (s * 8 + i) as u64));
    let r = guard(|| {
      let mut out: V = vec![];
      let w = SolarWeek::from_ym(y as isize, m as usize, i as usize, s as usize);
      for &n in STEP_SET.iter() {
        let t = f + 7 * n;
        // the target week and every month walked over must lie inside 0001-02..9999-11
        if t < FIRST + 40 || t + 6 > LAST - 40 {
          continue;
        }
        let x = w.next(n as isize);
        let got = dn_of(&x.get_first_day());
        if got != Some(t) {
          out.push((format!("C14/week-next/{}_step_{:+}", key, n), format!("{:?}", got.map(cal::fmt_dn)), cal::fmt_dn(t)));
        }
      }
      // index in year = blocks since the one containing 1 January
      let want = (f - block_start(jan1, s)) / 7;
      if want >= 0 && block_start(jan1, s) >= FIRST {
        let got = w.get_index_in_year() as i64;
        if got != want {
          out.push((format!("C14/week-index-in-year/{}", key), format!("{}", got), format!("{}", want)));
        }
      }
      out
    });
    log.ev(STEP_SET.len() as u64);
    match r {
      Ok(v) => {
        for (sig, o, e) in v {
          log.violate(sig, "SolarWeek::next / get_index_in_year", key.clone(), o, e);
        }
      }
      Err(msg) => log.violate(format!("C14/panic-week/{}", key), "SolarWeek::next", key.clone(), format!("panic: {}", msg), "no panic".into()),
    }
  }
}

fn lunar_month_weeks(k: usize, cfg: &Cfg, log: &mut Log) {
  let seq = lunar_seq();
  let lm = seq.months[k];
  let first = lm.first;
  let last = lm.first + lm.days - 1;
  if first < FIRST + 500 || last > LAST - 500 {
    return;
  }
  // lunar weeks are built on lunar labels; where the labelling itself is a listed finding of
  // C02/C03 (AD 8-25, 236-240, +-60 weeks of stepping) the workload does not go
  if lm.y < 28 || (234..=242).contains(&lm.y) {
    log.count("lunar.months_skipped_reform_era", 1);
    return;
  }
  let mkey = fmt_lym(lm.y, lm.m);
  let mut rng = Rng::new(mix(cfg.seed, k as u64 ^ 0x1C14));
  log.ev(7);
  log.count("lunar.month_start_combinations", 7);
  if lm.m < 0 {
    log.count("lunar.leap_months", 1);
    log.nt(1);
  }
  let steps: Vec<i64> = vec![-60, -7, -6, -5, -4, -3, -2, -1, 0, 1, 2, 3, 4, 5, 6, 7, 60, rng.range(-40, 40)];
  let r = guard(|| {
    let mut out: V = vec![];
    let m = LunarMonth::from_ym(lm.y as isize, lm.m as isize);
    for s in 0..7i64 {
      let b0 = block_start(first, s);
      let count = (block_start(last, s) - b0) / 7 + 1;
      let skey = format!("{}_start{}", mkey, s);
      if m.get_week_count(s as usize) as i64 != count {
        out.push((format!("C14/lunar-week-count/{}", skey), format!("{}", m.get_week_count(s as usize)), format!("{}", count)));
      }
      let weeks = m.get_weeks(s as usize);
      if weeks.len() as i64 != count {
        out.push((format!("C14/lunar-weeks-list/{}", skey), format!("{}", weeks.len()), format!("{}", count)));
      }
      for (i, w) in weeks.iter().enumerate() {
        let want_first = b0 + 7 * i as i64;
        let fd = w.get_first_day();
        let f = dn_of(&fd.get_solar_day());
        if f != Some(want_first) {
          out.push((format!("C14/lunar-week-first-day/{}_{}", skey, i), format!("{:?}", f.map(cal::fmt_dn)), cal::fmt_dn(want_first)));
        }
        if fd.get_week().get_index() as i64 != s {
          out.push((format!("C14/lunar-week-start-weekday/{}_{}", skey, i), format!("{}", fd.get_week().get_index()), format!("{}", s)));
        }
        let ds: Vec<Option<i64>> = w.get_days().iter().map(|d| dn_of(&d.get_solar_day())).collect();
        let wd: Vec<Option<i64>> = (0..7).map(|j| Some(want_first + j)).collect();
        if ds != wd {
          out.push((format!("C14/lunar-week-days/{}_{}", skey, i), format!("{:?}", ds), "7 consecutive days".into()));
        }
        // stepping (one start per month keeps the cost bounded)
        if s == (k as i64 + cfg.seed as i64).rem_euclid(7) {
          for &n in &steps {
            let x = w.next(n as isize);
            let got = dn_of(&x.get_first_day().get_solar_day());
            if got != Some(want_first + 7 * n) {
              out.push((format!("C14/lunar-week-next/{}_{}_step_{:+}", skey, i, n), format!("{:?}", got.map(cal::fmt_dn)), cal::fmt_dn(want_first + 7 * n)));
            }
          }
        }
      }
      if count < 6 && LunarWeek::new(lm.y as isize, lm.m as isize, count as usize, s as usize).is_ok() {
        out.push((format!("C14/lunar-refuse-index/{}", skey), format!("index {} accepted", count), "refused".into()));
      }
    }
    out
  });
  match r {
    Ok(v) => {
      for (sig, o, e) in v {
        log.violate(sig, "lunar weeks", mkey.clone(), o, e);
      }
    }
    Err(msg) => log.violate(format!("C14/panic-lunar-month/{}", mkey), "lunar weeks", mkey.clone(), format!("panic: {}", msg), "no panic".into()),
  }
}

/// week count of every lunar month x 7 starts (needs only the month's first day and length, so the reform-era
/// months and the one 28-day month are included): ceil((offset of the 1st + day count) / 7)
fn lunar_week_counts(k: usize, log: &mut Log) {
  let seq = lunar_seq();
  let lm = seq.months[k];
  if lm.first < FIRST || lm.first + lm.days - 1 > LAST {
    return;
  }
  let mkey = fmt_lym(lm.y, lm.m);
  log.ev(7);
  log.count("lunar.week_counts_all_months", 7);
  if lm.days != 29 && lm.days != 30 {
    log.count("lunar.week_counts_of_months_not_29_or_30_days", 7);
  }
  let r = guard(|| {
    let m = LunarMonth::from_ym(lm.y as isize, lm.m as isize);
    (0..7).map(|s| m.get_week_count(s as usize) as i64).collect::<Vec<i64>>()
  });
  match r {
    Ok(got) => {
      for s in 0..7i64 {
        let want = (block_start(lm.first + lm.days - 1, s) - block_start(lm.first, s)) / 7 + 1;
        if got[s as usize] != want {
          log.violate(format!("C14/lunar-week-count/{}_start{}", mkey, s), "LunarMonth::get_week_count", format!("{} start {}", mkey, s), format!("{}", got[s as usize]), format!("{} ({} days from a weekday-{} day)", want, lm.days, weekday(lm.first)));
        }
      }
    }
    Err(msg) => log.violate(format!("C14/panic-lunar-month/{}", mkey), "LunarMonth::get_week_count", mkey.clone(), format!("panic: {}", msg), "no panic".into()),
  }
}

/// histories: a single-thread sequence of 6..16 week questions on related months (the same month again, the
/// neighbouring months, the same month in a year that differs by a cycle / power of two or ten / digit, the month
/// half a year away; civil and lunar mixed, week start kept or changed)
fn history(i: usize, cfg: &Cfg, log: &mut Log) {
  let c = cal();
  let seq = lunar_seq();
  let nm = c.month_first.len();
  let mut rng = Rng::new(mix(cfg.seed, i as u64 ^ 0x7C14));
  let len = rng.range(6, 16);
  let mut mi = 1 + rng.below(nm - 3);
  let mut s = rng.range(0, 6);
  let key = format!("seq{}_{:04}-{:02}", i, mi / 12 + 1, mi % 12 + 1);
  let mut trace: Vec<String> = vec![];
  let r = guard(|| {
    let mut out: Vec<(String, String)> = vec![];
    let mut judged = 0u64;
    for step in 0..len {
      let y = (mi / 12) as i64 + 1;
      let m = (mi % 12) as i64 + 1;
      let first = c.month_first[mi];
      let last = c.month_first[mi + 1] - 1;
      let b0 = block_start(first, s);
      let count = (block_start(last, s) - b0) / 7 + 1;
      let name = format!("{:04}-{:02}/{}", y, m, s);
      match rng.below(8) {
        0 | 1 => {
          trace.push(format!("count({})", name));
          let got = SolarMonth::from_ym(y as isize, m as usize).get_week_count(s as usize) as i64;
          judged += 1;
          if got != count {
            out.push((format!("step {} {}: {} weeks", step, trace.join(" "), got), format!("{} weeks", count)));
          }
        }
        2 => {
          trace.push(format!("weeks({})", name));
          let got: Vec<Option<i64>> = SolarMonth::from_ym(y as isize, m as usize).get_weeks(s as usize).iter().map(|w| dn_of(&w.get_first_day())).collect();
          let want: Vec<Option<i64>> = (0..count).map(|k| Some(b0 + 7 * k)).collect();
          judged += 1;
          if got != want {
            out.push((format!("step {} {}: first days {:?}", step, trace.join(" "), got), format!("{:?}", want)));
          }
        }
        3 | 4 => {
          let n = rng.range(first, last);
          trace.push(format!("week-of({}, {})", cal::fmt_dn(n), s));
          let w = sd_of_dn(n).get_solar_week(s as usize);
          let got = (dn_of(&w.get_first_day()), w.get_index() as i64);
          let want = (Some(block_start(n, s)), (block_start(n, s) - b0) / 7);
          judged += 1;
          if got != want {
            out.push((format!("step {} {}: first day {:?} index {}", step, trace.join(" "), got.0.map(cal::fmt_dn), got.1), format!("first day {} index {}", cal::fmt_dn(block_start(n, s)), want.1)));
          }
        }
        5 => {
          let idx = rng.range(0, count - 1);
          let n = *rng.pick(&[1i64, -1, 2, -2, 4, -4, 5, -5, 9, -9, 26, -26, 52, -52]);
          let t = b0 + 7 * (idx + n);
          if t >= FIRST + 40 && t + 6 <= LAST - 40 {
            trace.push(format!("next({}#{}, {:+})", name, idx, n));
            let got = dn_of(&SolarWeek::from_ym(y as isize, m as usize, idx as usize, s as usize).next(n as isize).get_first_day());
            judged += 1;
            if got != Some(t) {
              out.push((format!("step {} {}: {:?}", step, trace.join(" "), got.map(cal::fmt_dn)), cal::fmt_dn(t)));
            }
          }
        }
        6 => {
          let idx = rng.range(0, count - 1);
          let jan1 = c.year_first(y);
          let want = (b0 + 7 * idx - block_start(jan1, s)) / 7;
          if want >= 0 && block_start(jan1, s) >= FIRST {
            trace.push(format!("index-in-year({}#{})", name, idx));
            let got = SolarWeek::from_ym(y as isize, m as usize, idx as usize, s as usize).get_index_in_year() as i64;
            judged += 1;
            if got != want {
              out.push((format!("step {} {}: {}", step, trace.join(" "), got), format!("{}", want)));
            }
          }
        }
        _ => {
          // the lunar month that contains the 15th of this civil month
          let k = seq.months.partition_point(|lm| lm.first <= first + 14);
          if k > 0 {
            let lm = seq.months[k - 1];
            let (lf, ll) = (lm.first, lm.first + lm.days - 1);
            if lm.y >= 28 && !(234..=242).contains(&lm.y) && lf > FIRST + 500 && ll < LAST - 500 {
              trace.push(format!("lunar-count({}/{})", fmt_lym(lm.y, lm.m), s));
              let lmo = LunarMonth::from_ym(lm.y as isize, lm.m as isize);
              let lb0 = block_start(lf, s);
              let lcount = (block_start(ll, s) - lb0) / 7 + 1;
              let got = (lmo.get_week_count(s as usize) as i64, lmo.get_weeks(s as usize).iter().map(|w| dn_of(&w.get_first_day().get_solar_day())).collect::<Vec<_>>());
              let want = (lcount, (0..lcount).map(|j| Some(lb0 + 7 * j)).collect::<Vec<_>>());
              judged += 1;
              if got != want {
                out.push((format!("step {} {}: {:?}", step, trace.join(" "), got), format!("{:?}", want)));
              }
            }
          }
        }
      }
      if !out.is_empty() {
        break;
      }
      // the next month and week start
      if rng.chance(1, 3) {
        s = rng.range(0, 6);
      }
      let q: i64 = match rng.below(10) {
        0 | 1 => mi as i64,
        2 => mi as i64 + 1,
        3 => mi as i64 - 1,
        4 => mi as i64 + *rng.pick(&[6i64, -6, 12, -12]),
        5 => 1 + rng.below(nm - 3) as i64,
        _ => (crate::history::related_year(&mut rng, y, 1, 9999) - 1) * 12 + m - 1,
      };
      mi = q.clamp(1, nm as i64 - 3) as usize;
    }
    (out, judged)
  });
  log.ev(1);
  log.nt(1);
  match r {
    Ok((v, judged)) => {
      log.count("history.sequences", 1);
      log.count("history.answers_judged", judged);
      if let Some((o, e)) = v.into_iter().next() {
        log.violate(format!("C14/history/{}", key), "a sequence of week questions on related months on one thread", key.clone(), o, e);
      }
    }
    Err(msg) => log.violate(format!("C14/panic-history/{}", key), "a sequence of week questions on related months on one thread", key.clone(), format!("panic: {}", msg), "no panic".into()),
  }
}

pub fn run(cfg: &Cfg) -> (Log, Meta) {
  crate::util::set_thread_cap(12);
  let mut log = Log::new();
  if let Err(e) = cal::self_test() {
    log.harness_error(&format!("oracle self-test failed: {}", e));
  }
  let nm = cal().month_first.len();
  // months 0001-02 .. 9999-11
  log.merge(par_range(nm - 2, 32, |i, l| solar_month(i + 1, cfg, l)));
  let step_months: Vec<usize> = match cfg.tier {
    Tier::Quick => {
      let mut rng = Rng::new(mix(cfg.seed, 0x5C14));
      let mut v: Vec<usize> = (0..3000).map(|_| 1 + rng.below(nm - 2)).collect();
      // the 1582 neighbourhood always
      for m in 0..14 {
        v.push((1582 - 1) * 12 + 6 + m);
      }
      v
    }
    Tier::Thorough => (1..nm - 1).collect(),
  };
  log.merge(par_range(step_months.len(), 8, |i, l| solar_steps(step_months[i], cfg, l)));
  let seq = lunar_seq();
  let lunar_idx: Vec<usize> = match cfg.tier {
    Tier::Quick => {
      let mut rng = Rng::new(mix(cfg.seed, 0x6C14));
      let mut v: Vec<usize> = (0..1200).map(|_| rng.below(seq.months.len())).collect();
      let leaps: Vec<usize> = (0..seq.months.len()).filter(|&i| seq.months[i].m < 0).collect();
      for _ in 0..300 {
        v.push(*rng.pick(&leaps));
      }
      v
    }
    Tier::Thorough => (0..seq.months.len()).filter(|&i| seq.months[i].y % 4 == (cfg.seed % 4) as i64).collect(),
  };
  log.merge(par_range(lunar_idx.len(), 4, |i, l| lunar_month_weeks(lunar_idx[i], cfg, l)));
  log.merge(par_range(seq.months.len(), 512, |k, l| lunar_week_counts(k, l)));
  log.floor("lunar.week_counts_all_months", 800_000);
  let nh = cfg.tier.pick(30_000usize, 500_000usize);
  log.merge(par_range(nh, 100, |i, l| history(i, cfg, l)));
  log.floor("history.answers_judged", cfg.tier.pick(200_000, 3_500_000));
  log.floor("solar.month_start_combinations", 800_000);
  log.floor("solar.date_to_week_lookups", cfg.tier.pick(10_000_000, 25_000_000));
  log.floor("solar.edge_months", 10_000);
  log.floor("solar.week_step_origins", cfg.tier.pick(10_000, 500_000));
  log.floor("lunar.month_start_combinations", cfg.tier.pick(5_000, 60_000));
  log.floor("lunar.leap_months", cfg.tier.pick(200, 300));
  let meta = Meta {
    rule: format!(
      "every civil month 0001-02..9999-11 x 7 week starts x every index (count, list, first day, start weekday, 7 consecutive days, identity, coverage of the month, refusal of index = count / index 6 / start 7) and every date x {} starts for date->week; stepping by {} step counts in -60..60 and index-in-year from every week of {} months (one seeded start each); lunar months: {} months x 7 starts (count, list, first day, weekday, 7 days, refusal, stepping by 18 step counts for one start), and the week count of every lunar month of years 0..9999 x 7 starts from its first day and length alone (the 28-day month 236-12 and the reform-era months included); histories: {} seeded single-thread sequences of 6..16 questions (week count, week list, week of a date, next(n), index in year, week count and list of the lunar month around the 15th) on months related to the previous one (same, +-1, +-6, +-12, same month in a year differing by a cycle, a power of two or ten or a digit), week start kept or redrawn. Oracle: weekday (N+1) mod 7 and 7-day blocks intersecting the month. Non-trivial = months starting on Sunday, 28-day months, October 1582, leap lunar months, distinct (month, start, index) step origins.",
      cfg.tier.pick(3, 7),
      STEP_SET.len(),
      step_months.len(),
      lunar_idx.len(),
      nh
    ),
    assumptions: vec!["lunar months of AD 0-27 and 234-242 are not drawn: their labelling is a listed finding of C02/C03 and lunar weeks inherit it".into(), "weeks are identified by the day number of their first day; first and last month of the range are excluded because their weeks reach outside 0001..9999".into()],
    exhaustive: false,
  };
  (log, meta)
}
