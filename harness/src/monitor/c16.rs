//! C16 — child limit and fortunes follow from birth instant, gender and the next Jie.
use crate::api::*;
use crate::log::Log;
use crate::model::cal::{self, cal, nominal_mlen};
use crate::model::ganzhi::pillar_name;
use crate::model::pillars::four_pillars;
use crate::model::terms::terms;
use crate::util::{guard, mix, par_range, Rng};
use crate::{Cfg, Meta};
use tyme4rs::tyme::eightchar::provider::{ChildLimitProvider, China95ChildLimitProvider, DefaultChildLimitProvider, LunarSect1ChildLimitProvider, LunarSect2ChildLimitProvider};
use tyme4rs::tyme::eightchar::ChildLimit;
use tyme4rs::tyme::enums::Gender;
use tyme4rs::tyme::solar::SolarTerm;
use tyme4rs::tyme::Tyme;

type V = Vec<(String, String, String)>;

/// nominal calendar addition: years, months (normalised), days spilling over nominal month lengths,
/// then h:m:s carries.  Returns the nominal (y, m, d, h, mi, s) and whether the day carry met
/// October 1582 with a day number where the gap matters (> 4 and not 15..=21 as a final value).
fn nominal_add(b: (i64, i64, i64, i64, i64, i64), add: (i64, i64, i64, i64, i64)) -> ((i64, i64, i64, i64, i64, i64), bool) {
  let (y, mo, d, h, mi, s) = b;
  let (ay, am, ad, ah, ami) = add;
  let mut mi2 = mi + ami;
  let mut h2 = h + ah;
  let mut d2 = d + ad;
  h2 += mi2 / 60;
  mi2 %= 60;
  d2 += h2 / 24;
  h2 %= 24;
  let mut tm = (y + ay) * 12 + (mo - 1) + am;
  let mut gap = false;
  loop {
    let (yy, mm) = (tm / 12, tm % 12 + 1);
    if yy == 1582 && mm == 10 && d2 > 4 && !(15..=21).contains(&d2) {
      gap = true;
    }
    let l = nominal_mlen(yy, mm);
    if d2 <= l {
      return ((yy, mm, d2, h2, mi2, s), gap);
    }
    d2 -= l;
    tm += 1;
  }
}

#[derive(Clone, Copy, PartialEq, Eq, Debug)]
enum Strat {
  Default,
  China95,
  Sect1,
  Sect2,
}

/// (years, months, days, hours, minutes) by the strategy's count rule from the distance in seconds
fn counts(st: Strat, diff: i64) -> Option<(i64, i64, i64, i64, i64)> {
  match st {
    Strat::Default => Some((diff / 259200, diff % 259200 / 21600, diff % 21600 / 720, diff % 720 / 30, diff % 30 * 2)),
    Strat::China95 => {
      let m = diff / 60;
      Some((m / 4320, m % 4320 / 360, m % 360 / 12, 0, 0))
    }
    Strat::Sect2 => {
      let m = diff / 60;
      Some((m / 4320, m % 4320 / 360, m % 360 / 12, m % 12 * 2, 0))
    }
    Strat::Sect1 => None,
  }
}

/// LunarSect1 counts by whole days and double-hours ("3 days = 1 year, 1 day = 4 months, 1 double-hour = 10
/// days"): the double-hour of an instant is (hour + 1) / 2, with 23:xx counted as the twelfth double-hour of its
/// own civil day (the strategy's convention); the earlier of (birth, Jie) is subtracted from the later with a
/// borrow of one day = 12 double-hours
fn sect1_counts(a: i64, jie_sec: i64) -> (i64, i64, i64, i64, i64) {
  let (start, end) = if a > jie_sec { (jie_sec, a) } else { (a, jie_sec) };
  let zhi = |x: i64| {
    let h = x.rem_euclid(86400) / 3600;
    if h == 23 {
      11
    } else {
      (h + 1) / 2
    }
  };
  let mut hours = zhi(end) - zhi(start);
  let mut days = end.div_euclid(86400) - start.div_euclid(86400);
  if hours < 0 {
    hours += 12;
    days -= 1;
  }
  // 10 days per double-hour, 30 days per month, 4 months per day, 12 months per year
  let total_days = hours * 10;
  let months = days * 4 + total_days / 30;
  (months / 12, months % 12, total_days % 30, 0, 0)
}

fn split(a: i64) -> (i64, i64, i64, i64, i64, i64) {
  let (y, m, d) = cal().date(a.div_euclid(86400));
  let sod = a.rem_euclid(86400);
  (y, m, d, sod / 3600, sod % 3600 / 60, sod % 60)
}

/// the lunar-year getters cost a second limit construction per birth: every birth in quick, every third in thorough
static LUNAR_YEARS_EVERY: std::sync::atomic::AtomicUsize = std::sync::atomic::AtomicUsize::new(1);

fn check_birth(a: i64, man: bool, st: Strat, via_global: bool, log: &mut Log) {
  let t = terms();
  let b = split(a);
  let pillars = match four_pillars(a, false) {
    Some(p) => p,
    None => return,
  };
  let yang = pillars[0] % 2 == 0;
  let forward = (yang && man) || (!yang && !man);
  // governing Jie
  let g = match t.governing_sec(a) {
    Some(g) => g,
    None => return,
  };
  let mut k = g;
  while t.v[k].i % 2 == 0 {
    k -= 1;
  }
  if forward {
    k += 2;
  }
  if k >= t.v.len() || t.v[k].ambiguous || t.v[g].ambiguous || (g + 1 < t.v.len() && t.v[g + 1].ambiguous && (t.v[g + 1].sec - a).abs() < 3) {
    log.count("birth.skipped_term_rounding_ambiguous", 1);
    return;
  }
  let jie = t.v[k];
  let diff = (jie.sec - a).abs();
  log.ev(1);
  log.nt_distinct(mix(a as u64, man as u64 + 2 * st as u64 + 16 * via_global as u64));
  if forward {
    log.count("birth.forward", 1);
  } else {
    log.count("birth.backward", 1);
  }
  if diff < 10 {
    log.count("birth.within_10s_of_the_governing_jie", 1);
  }
  let key = || format!("{}_{}{}", fmt_abs(a), if man { "M" } else { "F" }, match st {
    Strat::Default => "",
    Strat::China95 => "_china95",
    Strat::Sect1 => "_sect1",
    Strat::Sect2 => "_sect2",
  });
  let gender = if man { Gender::MAN } else { Gender::WOMAN };
  let r = guard(|| {
    let birth = st_of_abs(a);
    if via_global {
      let cl = ChildLimit::from_solar_time(birth, gender);
      let ec = cl.get_eight_char();
      let df0 = cl.get_start_decade_fortune();
      let f0 = cl.get_start_fortune();
      let kk = (a.rem_euclid(7)) as isize + 1;
      let dfk = df0.next(kk);
      let fk = f0.next(kk * 3);
      // year getters of later fortunes are asked only while they stay inside 1..9999
      let ey = cl.get_end_time().get_year() as i64;
      let in_range = ey + 10 * kk as i64 + 9 <= 9999;
      Ok((
        (cl.get_year_count() as i64, cl.get_month_count() as i64, cl.get_day_count() as i64, cl.get_hour_count() as i64, cl.get_minute_count() as i64),
        cl.get_end_time(),
        Some((
          cl.is_forward(),
          [ec.get_year().get_index() as i64, ec.get_month().get_index() as i64, ec.get_day().get_index() as i64, ec.get_hour().get_index() as i64],
          abs_sec_of(&cl.get_start_time()),
          (df0.get_sixty_cycle().get_index() as i64, df0.get_start_age() as i64, df0.get_end_age() as i64, if in_range { df0.get_start_sixty_cycle_year().get_year() as i64 } else { ey }, if in_range { df0.get_end_sixty_cycle_year().get_year() as i64 } else { ey + 9 }),
          (kk as i64, dfk.get_sixty_cycle().get_index() as i64, dfk.get_start_age() as i64, if in_range { dfk.get_start_sixty_cycle_year().get_year() as i64 } else { ey + 10 * kk as i64 }, dfk.get_index() as i64, dfk.next(-kk).get_index() as i64, dfk.get_start_fortune().get_index() as i64),
          (f0.get_sixty_cycle().get_index() as i64, f0.get_age() as i64, f0.get_sixty_cycle_year().get_year() as i64),
          (fk.get_sixty_cycle().get_index() as i64, fk.get_age() as i64, if in_range { fk.get_sixty_cycle_year().get_year() as i64 } else { ey + 3 * kk as i64 }, fk.get_index() as i64, fk.next(-3 * kk).get_index() as i64),
          (cl.get_start_age() as i64, cl.get_end_age() as i64, cl.get_start_sixty_cycle_year().get_year() as i64, cl.get_end_sixty_cycle_year().get_year() as i64),
        )),
      ))
    } else {
      let term = SolarTerm::from_index(jie.y as isize, jie.i as isize);
      let info = match st {
        Strat::Default => DefaultChildLimitProvider::new().get_info(birth, term),
        Strat::China95 => China95ChildLimitProvider::new().get_info(birth, term),
        Strat::Sect1 => LunarSect1ChildLimitProvider::new().get_info(birth, term),
        Strat::Sect2 => LunarSect2ChildLimitProvider::new().get_info(birth, term),
      };
      Ok::<_, String>(((info.get_year_count() as i64, info.get_month_count() as i64, info.get_day_count() as i64, info.get_hour_count() as i64, info.get_minute_count() as i64), info.get_end_time(), None))
    }
  });
  // what the end should be, by the counts the oracle derives (or, for Sect1, the counts reported)
  let want_counts = if st == Strat::Sect1 { Some(sect1_counts(a, jie.sec)) } else { counts(st, diff) };
  match r {
    Err(msg) => {
      // a panic is expected only where the nominal end meets the October-1582 gap
      let gap = want_counts.map(|c| nominal_add(b, c).1).unwrap_or(false) || msg.contains("illegal solar day: 1582-10-");
      if gap {
        log.count("end.october_1582_class", 1);
        log.violate(format!("C16/end-1582-10/{}", key()), "ChildLimit end instant", key(), format!("panic: {}", msg), "an end instant (nominal end meets the October 1582 gap)".into());
      } else {
        log.violate(format!("C16/panic/{}", key()), "ChildLimit", key(), format!("panic: {}", msg), "no panic".into());
      }
    }
    Ok(Err(e)) => log.violate(format!("C16/panic/{}", key()), "ChildLimit", key(), e, "no error".into()),
    Ok(Ok((got_counts, end, extra))) => {
      let mut out: V = vec![];
      if let Some(wc) = want_counts {
        if got_counts != wc {
          out.push((format!("C16/counts/{}", key()), format!("{:?}", got_counts), format!("{:?} ({} s to the governing Jie ({}, {}) at {})", wc, diff, jie.y, jie.i, fmt_abs(jie.sec))));
        }
      }
      let (nominal, gap) = nominal_add(b, got_counts);
      let want_end = if cal::exists(nominal.0, nominal.1, nominal.2) { Some(cal().dn(nominal.0, nominal.1, nominal.2) * 86400 + nominal.3 * 3600 + nominal.4 * 60 + nominal.5) } else { None };
      let got_end = abs_sec_of(&end);
      if got_end != want_end || want_end.is_none() {
        let sig = if gap { format!("C16/end-1582-10/{}", key()) } else { format!("C16/end/{}", key()) };
        if gap {
          log.count("end.october_1582_class", 1);
        }
        out.push((sig, format!("{}", end), format!("birth + {:?} = nominal {:?}", got_counts, nominal)));
      } else if gap {
        log.count("end.october_1582_class_but_agreeing", 1);
      }
      if let (Some(e), false) = (got_end, gap) {
        if e < a || e - a > (11 * 366 + 2) * 86400 {
          out.push((format!("C16/end-bounds/{}", key()), format!("{} s after birth", e - a), "0 .. about 11 years".into()));
        }
        if nominal.1 != b.1 || nominal.2 != b.2 {
          log.count("end.month_or_day_carried", 1);
        }
      }
      if let Some((fwd, ec, start, df0, dfk, f0, fk, ages)) = extra {
        if fwd != forward {
          out.push((format!("C16/direction/{}", key()), format!("{}", fwd), format!("{} (year stem {} , {})", forward, if yang { "Yang" } else { "Yin" }, if man { "man" } else { "woman" })));
        }
        if ec != pillars {
          out.push((format!("C16/eight-char/{}", key()), format!("{:?}", ec), format!("{:?}", pillars)));
        }
        if start != Some(a) {
          out.push((format!("C16/start-time/{}", key()), format!("{:?}", start), format!("{}", a)));
        }
        if let Some(e) = got_end {
          let ey = cal().date(e.div_euclid(86400)).0;
          let sg = if forward { 1 } else { -1 };
          let base = ey - b.0 + 1;
          let (mp, hp) = (pillars[1], pillars[3]);
          let want_df0 = ((mp + sg).rem_euclid(60), base, base + 9, ey, ey + 9);
          if df0 != want_df0 {
            out.push((format!("C16/decade-fortune/{}", key()), format!("{:?}", df0), format!("{:?}", want_df0)));
          }
          let kk = dfk.0;
          let want_dfk = (kk, (mp + sg * (kk + 1)).rem_euclid(60), base + 10 * kk, ey + 10 * kk, kk, 0, 10 * kk);
          if dfk != want_dfk {
            out.push((format!("C16/decade-fortune-step/{}", key()), format!("{:?}", dfk), format!("{:?}", want_dfk)));
          }
          let want_f0 = ((hp + sg * base).rem_euclid(60), base, ey);
          if f0 != want_f0 {
            out.push((format!("C16/fortune/{}", key()), format!("{:?} ({})", f0, pillar_name(f0.0)), format!("{:?} ({})", want_f0, pillar_name(want_f0.0))));
          }
          let want_fk = ((hp + sg * (base + 3 * kk)).rem_euclid(60), base + 3 * kk, ey + 3 * kk, 3 * kk, 0);
          if fk != want_fk {
            out.push((format!("C16/fortune-step/{}", key()), format!("{:?}", fk), format!("{:?}", want_fk)));
          }
          let want_ages = (1, (ey - b.0).max(1), b.0, ey);
          if ages != want_ages {
            out.push((format!("C16/ages/{}", key()), format!("{:?}", ages), format!("{:?}", want_ages)));
          }
        }
      }
      for (sig, o, e) in out {
        log.violate(sig, "child limit", key(), o, e);
      }
    }
  }
  // the deprecated lunar-year getters of the limit and of the fortunes run parallel to the sexagenary-year ones:
  // lunar year of the birth (from the enumerated months) + civil years elapsed to the end + steps
  if via_global && st == Strat::Default && !cal::reform_era_near(a.div_euclid(86400)) && (LUNAR_YEARS_EVERY.load(std::sync::atomic::Ordering::Relaxed) <= 1 || a.rem_euclid(LUNAR_YEARS_EVERY.load(std::sync::atomic::Ordering::Relaxed) as i64) == 0) {
    let seq = crate::model::lunar_seq::lunar_seq();
    let n = a.div_euclid(86400);
    let k = seq.months.partition_point(|lm| lm.first <= n);
    if k > 0 && n < seq.months[k - 1].first + seq.months[k - 1].days {
      let lby = seq.months[k - 1].y;
      #[allow(deprecated)]
      let r2 = guard(|| {
        let cl = ChildLimit::from_solar_time(st_of_abs(a), gender);
        let ey = cl.get_end_time().get_year() as i64;
        let kk = (a.rem_euclid(7)) as isize + 1;
        if ey + 10 * kk as i64 + 9 > 9998 || lby < 1 {
          return None;
        }
        let df0 = cl.get_start_decade_fortune();
        let f0 = cl.get_start_fortune();
        let (dfk, fk) = (df0.next(kk), f0.next(kk * 3));
        Some((ey, kk as i64, [cl.get_end_lunar_year().get_year() as i64, df0.get_start_lunar_year().get_year() as i64, df0.get_end_lunar_year().get_year() as i64, dfk.get_start_lunar_year().get_year() as i64, dfk.get_end_lunar_year().get_year() as i64, f0.get_lunar_year().get_year() as i64, fk.get_lunar_year().get_year() as i64]))
      });
      match r2 {
        Ok(Some((ey, kk, got))) => {
          let base = lby + ey - b.0;
          let want = [base, base, base + 9, base + 10 * kk, base + 10 * kk + 9, base, base + 3 * kk];
          log.count("fortune.lunar_year_getters", 7);
          if got != want {
            log.violate(format!("C16/lunar-years/{}", key()), "deprecated lunar-year getters of the limit and the fortunes", key(), format!("{:?}", got), format!("{:?} (birth in lunar year {}, limit ends in {})", want, lby, ey));
          }
        }
        Ok(None) => {}
        Err(msg) => {
          if !msg.contains("illegal solar day: 1582-10-") {
            log.violate(format!("C16/lunar-years/{}", key()), "deprecated lunar-year getters of the limit and the fortunes", key(), format!("panic: {}", msg), "lunar years".into());
          }
        }
      }
    }
  }
  log.sample(|| format!("birth {} {} ({:?}): {} s {} the Jie ({}, {}) -> counts {:?}", fmt_abs(a), if man { "man" } else { "woman" }, st, diff, if forward { "before" } else { "after" }, jie.y, jie.i, want_counts));
}

fn random_birth(rng: &mut Rng, i: usize) -> i64 {
  let c = cal();
  let t = terms();
  let a = match i % 12 {
    0 | 1 | 2 | 3 => rng.range(c.dn(1570, 1, 1) * 86400, c.dn(1583, 12, 31) * 86400),
    4 => {
      // within 3 s of a Jie instant
      let y = rng.range(3, 9988);
      let idx = *rng.pick(&[1i64, 3, 5, 7, 9, 11, 13, 15, 17, 19, 21, 23]);
      t.get(y, idx).sec + rng.range(-3, 3)
    }
    5 => {
      // last / first day of a month or year at a late hour
      let y = rng.range(3, 9988);
      let m = if rng.chance(1, 3) { 12 } else { rng.range(1, 12) };
      let d = if rng.chance(1, 2) { cal::mdays(y, m) } else { 1 };
      let d = if y == 1582 && m == 10 && d > 4 { 31 } else { d };
      c.dn(y, m, d) * 86400 + rng.range(20 * 3600, 86399)
    }
    6 => {
      // 29..31 of a month: the day carry has to cross short months
      let y = rng.range(3, 9988);
      let m = rng.range(1, 12);
      let d = rng.range(28, 31).min(cal::mdays(y, m));
      let d = if y == 1582 && m == 10 { 31 } else { d };
      c.dn(y, m, d) * 86400 + rng.range(0, 86399)
    }
    _ => rng.range(c.dn(3, 1, 1) * 86400, c.dn(9988, 12, 31) * 86400),
  };
  if cal::reform_era_day(a.div_euclid(86400)) {
    a + 500 * 86400
  } else {
    a
  }
}

pub fn run(cfg: &Cfg) -> (Log, Meta) {
  crate::util::set_thread_cap(10);
  let mut log = Log::new();
  if let Err(e) = cal::self_test() {
    log.harness_error(&format!("oracle self-test failed: {}", e));
  }
  let t = terms();
  if !t.errors.is_empty() || !t.monotonic() {
    log.harness_error("term list unusable as an oracle (see C06)");
    log.ev(1);
    return (log, Meta { rule: "not run".into(), assumptions: vec![], exhaustive: false });
  }
  // nominal addition self-test: 1990-01-31 + 1 month 0 days -> 1990-02-31 -> spills to 03-03
  if nominal_add((1990, 1, 31, 0, 0, 0), (0, 1, 0, 0, 0)).0 != (1990, 3, 3, 0, 0, 0) || nominal_add((1999, 12, 31, 23, 59, 0), (0, 0, 0, 0, 2)).0 != (2000, 1, 1, 0, 1, 0) {
    log.harness_error("nominal calendar addition self-test failed");
  }
  // related births one after the other on a single thread, nothing else running: a limit must not depend on the
  // birth that was laid out just before (same Gregorian year on both sides of the year's first and last Jie, same
  // month in adjacent years, both sides of a Jie within one civil month, both genders)
  tyme4rs::tyme::eightchar::verif::set_child_limit_provider(0);
  {
    let c = cal();
    let n_rel = cfg.tier.pick(300usize, 6_000usize);
    let mut rng = Rng::new(mix(cfg.seed, 0x2C16));
    for k in 0..n_rel {
      let y = if k % 4 == 0 { rng.range(1900, 2100) } else { rng.range(3, 9986) };
      if (1570..=1583).contains(&y) {
        continue;
      }
      let sod = rng.range(0, 86399);
      let jan = c.dn(y, 1, rng.range(1, 5)) * 86400 + sod;
      let dec = c.dn(y, 12, rng.range(8, 31)) * 86400 + rng.range(0, 86399);
      let m = rng.range(2, 11);
      let early = c.dn(y, m, rng.range(1, 3)) * 86400 + sod;
      let late = c.dn(y, m, rng.range(12, 28)) * 86400 + sod;
      let next_year = c.dn(y + 1, m, rng.range(12, 28)) * 86400 + sod;
      let mut seq: Vec<i64> = vec![jan, dec, jan, early, late, early, next_year, late, c.dn(y + 1, 1, rng.range(1, 5)) * 86400 + sod, dec];
      if k % 2 == 1 {
        seq.reverse();
      }
      for (j, a) in seq.iter().enumerate() {
        if cal::reform_era_day(a.div_euclid(86400)) {
          continue;
        }
        let man = (k + j) % 3 != 0;
        check_birth(*a, man, Strat::Default, true, &mut log);
        if j % 4 == 1 {
          check_birth(*a, !man, Strat::Default, true, &mut log);
        }
        log.count("related.births_in_sequence", 1);
      }
      log.count("related.sequences", 1);
    }
  }
  LUNAR_YEARS_EVERY.store(cfg.tier.pick(1, 3), std::sync::atomic::Ordering::Relaxed);
  let n_default = cfg.tier.pick(20_000usize, 1_000_000usize);
  let n_other = cfg.tier.pick(4_000usize, 100_000usize);
  // default strategy through the public entry point
  tyme4rs::tyme::eightchar::verif::set_child_limit_provider(0);
  log.merge(par_range(n_default, 100, |i, l| {
    let mut rng = Rng::new(mix(cfg.seed, i as u64 ^ 0xC16));
    let a = random_birth(&mut rng, i);
    check_birth(a, true, Strat::Default, true, l);
    check_birth(a, false, Strat::Default, true, l);
  }));
  // the other shipped strategies: directly, and through the global switch (guarded hook)
  for (kind, st) in [(1usize, Strat::China95), (2, Strat::Sect1), (3, Strat::Sect2), (0, Strat::Default)] {
    tyme4rs::tyme::eightchar::verif::set_child_limit_provider(kind);
    log.merge(par_range(n_other, 100, |i, l| {
      let mut rng = Rng::new(mix(cfg.seed, i as u64 ^ (0x1C16 + kind as u64)));
      let a = random_birth(&mut rng, i);
      let man = rng.chance(1, 2);
      check_birth(a, man, st, false, l);
      if st != Strat::Default {
        check_birth(a, man, st, true, l);
      }
      l.count("strategy.direct_or_switched_calls", 2);
    }));
  }
  tyme4rs::tyme::eightchar::verif::set_child_limit_provider(0);
  if tyme4rs::tyme::eightchar::verif::child_limit_provider_poisoned() {
    log.note("child-limit provider lock is poisoned at the end of the run (C10's subject); calls recovered".into());
  }
  log.floor("birth.forward", cfg.tier.pick(5_000, 200_000));
  log.floor("birth.backward", cfg.tier.pick(5_000, 200_000));
  log.floor("birth.within_10s_of_the_governing_jie", cfg.tier.pick(50, 2_000));
  log.floor("end.month_or_day_carried", cfg.tier.pick(5_000, 200_000));
  log.floor("strategy.direct_or_switched_calls", cfg.tier.pick(3_000, 80_000));
  log.floor("related.births_in_sequence", cfg.tier.pick(2_000, 40_000));
  log.floor("fortune.lunar_year_getters", cfg.tier.pick(100_000, 1_500_000));
  let meta = Meta {
    rule: format!(
      "single-threaded sequences of 10 related births (first days of January / December after Daxue / first days of the next January of one civil year in both orders, both sides of the Jie inside one civil month, the same month one year later, both genders) before anything else runs, each judged like every other birth; {} seeded births x both genders through ChildLimit::from_solar_time with the default strategy (1/3 in 1570-1583, 1/12 within 3 s of a Jie instant, 1/12 on month/year ends late in the day, 1/12 on days 28-31): direction from year-stem polarity and gender, eight characters, governing Jie from the term list, counts by the 3 d = 1 y ... 1 s = 2 min rule, end = birth + counts by nominal calendar addition, 0 <= end - birth <= 11 y + 2 d, decade fortune 0 and k (pillar, start/end age, years, index, start fortune), fortune 0 and 3k (pillar, age, year), ages, the seven deprecated lunar-year getters (lunar year of the birth by the enumerated months + civil years to the end + steps); {} births per alternative strategy (China95, LunarSect1, LunarSect2 and Default) called directly and through the guarded global provider switch: counts by the strategy's rule (Sect1: whole days and double-hours), same end-instant and fortune oracles. Ends whose nominal day carry meets October 1582 at a day number > 4 other than 15..21 form the signature class C16/end-1582-10 (listed finding). distinct_nontrivial = distinct (birth, gender, strategy, route).",
      n_default, n_other
    ),
    assumptions: vec![
      "term instants from the library, rounded to the second as the library does; births whose governing Jie is rounding-ambiguous are skipped".into(),
      "births on the 160 reform-era days of C02/C07 are not drawn".into(),
      "LunarSect1's count rule is re-derived from its description (whole days and double-hours, 3 days = 1 year, 1 day = 4 months, 1 double-hour = 10 days) with the strategy's convention that 23:xx is the twelfth double-hour of its own day".into(),
    ],
    exhaustive: false,
  };
  (log, meta)
}
