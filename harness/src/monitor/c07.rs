//! C07 — day pillar and weekday advance one step per civil day from fixed anchors.
use crate::api::*;
use crate::log::Log;
use crate::model::cal::{self, cal, BASE, LAST, TOTAL_DAYS};
use crate::model::lunar_seq::lunar_seq;
use crate::monitor::day_sample_years;
use crate::util::{guard, par_range};
use crate::{Cfg, Meta, Tier};
use tyme4rs::tyme::jd::JulianDay;
use tyme4rs::tyme::lunar::LunarDay;

fn check_day(n: i64, sixty_route: bool, stepped_route: bool, log: &mut Log) {
  let key = cal::fmt_dn(n);
  let want_p = cal::day_pillar(n);
  let want_w = cal::weekday(n);
  log.ev(1);
  let (y, m, d) = cal().date(n);
  if d == 1 {
    log.count("day.month_start_adjacencies", 1);
    log.nt(1);
    if m == 1 {
      log.count("day.year_start_adjacencies", 1);
    }
  }
  if y == 1582 && m == 10 && (d == 4 || d == 15) {
    log.count("day.cutover_adjacency_1582", 1);
  }
  let r = guard(|| {
    let sd = sd_of_dn(n);
    let l = sd.get_lunar_day();
    (l.get_sixty_cycle().get_index() as i64, sd.get_week().get_index() as i64, JulianDay::from_julian_day(n as f64 - 0.5).get_week().get_index() as i64, l.get_week().get_index() as i64, l.get_day() as i64)
  });
  match r {
    Ok((p, w1, w2, w3, ld)) => {
      if ld == 1 {
        log.count("day.lunar_month_boundary_adjacencies", 1);
      }
      if p != want_p {
        log.violate(format!("C07/pillar-lunar-route/{}", key), "get_lunar_day().get_sixty_cycle()", key.clone(), crate::model::ganzhi::pillar_name(p), crate::model::ganzhi::pillar_name(want_p));
      }
      if w1 != want_w {
        log.violate(format!("C07/weekday/{}", key), "SolarDay::get_week", key.clone(), format!("{}", w1), format!("{}", want_w));
      }
      if w2 != want_w {
        log.violate(format!("C07/weekday-jd/{}", key), "JulianDay::get_week", key.clone(), format!("{}", w2), format!("{}", want_w));
      }
      if w3 != want_w {
        log.violate(format!("C07/weekday-lunar/{}", key), "LunarDay::get_week", key.clone(), format!("{}", w3), format!("{}", want_w));
      }
    }
    Err(msg) => log.violate(format!("C07/panic/{}", key), "lunar route", key.clone(), format!("panic: {}", msg), "no panic".into()),
  }
  if sixty_route {
    log.ev(1);
    log.count("day.sixty_cycle_day_route", 1);
    let r = guard(|| {
      let scd = sd_of_dn(n).get_sixty_cycle_day();
      (scd.get_sixty_cycle().get_index() as i64, ymd(&scd.get_solar_day()))
    });
    match r {
      Ok((p, back)) => {
        if p != want_p {
          log.violate(format!("C07/pillar-sixty-route/{}", key), "get_sixty_cycle_day().get_sixty_cycle()", key.clone(), crate::model::ganzhi::pillar_name(p), crate::model::ganzhi::pillar_name(want_p));
        }
        if back != (y, m, d) {
          log.violate(format!("C07/sixty-route-day/{}", key), "get_sixty_cycle_day().get_solar_day()", key.clone(), fmt_ymd(back), key.clone());
        }
      }
      Err(msg) => log.violate(format!("C07/pillar-sixty-route/{}", key), "get_sixty_cycle_day()", key.clone(), format!("panic: {}", msg), crate::model::ganzhi::pillar_name(want_p)),
    }
  }
  if stepped_route && !cal::reform_era_near(n) && n + 40 < LAST && n > cal::FIRST + 400 {
    // stepped route: a lunar date whose memos are already filled is stepped by k days; the pillar of
    // the result must be that of day n + k by every route (lunar date, sexagenary-day view, civil date)
    for k in [1i64, -1, 3, 29, -30] {
      if cal::reform_era_near(n + k) {
        continue;
      }
      log.ev(1);
      log.count("day.stepped_from_a_warm_lunar_date", 1);
      let want = cal::day_pillar(n + k);
      let r = guard(|| {
        let l = sd_of_dn(n).get_lunar_day();
        let _ = l.get_sixty_cycle_day();
        let _ = l.get_solar_day();
        let s = tyme4rs::tyme::Tyme::next(&l, k as isize);
        let v = s.get_sixty_cycle_day();
        (s.get_sixty_cycle().get_index() as i64, v.get_sixty_cycle().get_index() as i64, dn_of(&s.get_solar_day()), dn_of(&v.get_solar_day()), s.get_week().get_index() as i64)
      });
      match r {
        Ok((p1, p2, d1, d2, w)) => {
          if p1 != want || p2 != want || d1 != Some(n + k) || d2 != Some(n + k) || w != cal::weekday(n + k) {
            log.violate(
              format!("C07/pillar-after-stepping/{}_step_{:+}", key, k),
              "LunarDay::next from a value with filled memos",
              format!("{} next({})", key, k),
              format!("lunar-route pillar {} view pillar {} civil day {:?} view day {:?} weekday {}", crate::model::ganzhi::pillar_name(p1), crate::model::ganzhi::pillar_name(p2), d1.map(cal::fmt_dn), d2.map(cal::fmt_dn), w),
              format!("pillar {} on {} weekday {}", crate::model::ganzhi::pillar_name(want), cal::fmt_dn(n + k), cal::weekday(n + k)),
            );
          }
        }
        Err(msg) => log.violate(format!("C07/pillar-after-stepping/{}_step_{:+}", key, k), "LunarDay::next", key.clone(), format!("panic: {}", msg), "no panic".into()),
      }
    }
  }
  log.sample(|| format!("{} (day number {}): pillar {} weekday {}", key, n, crate::model::ganzhi::pillar_name(want_p), want_w));
}

/// lunar side: the pillar of every lunar (y, m, d) equals the pillar of its civil day
fn lunar_year(y: i64, log: &mut Log) {
  let seq = lunar_seq();
  for lm in seq.year_slice(y) {
    for d in 1..=lm.days.clamp(0, 31) {
      let civil = lm.first + d - 1;
      if !cal().in_range(civil) {
        continue;
      }
      log.ev(1);
      log.count("lunar.days_from_the_lunar_side", 1);
      let key = fmt_lymd((lm.y, lm.m, d));
      let r = guard(|| {
        let l = LunarDay::from_ymd(lm.y as isize, lm.m as isize, d as usize);
        (l.get_sixty_cycle().get_index() as i64, dn_of(&l.get_solar_day()))
      });
      match r {
        Ok((p, Some(n))) => {
          if p != cal::day_pillar(n) {
            log.violate(format!("C07/pillar-from-lunar/{}", key), "LunarDay::get_sixty_cycle", key.clone(), crate::model::ganzhi::pillar_name(p), format!("{} (civil {})", crate::model::ganzhi::pillar_name(cal::day_pillar(n)), cal::fmt_dn(n)));
          }
        }
        Ok((_, None)) => log.violate(format!("C07/pillar-from-lunar/{}", key), "LunarDay::get_solar_day", key.clone(), "nonexistent civil date".into(), "a civil date".into()),
        Err(msg) => log.violate(format!("C07/pillar-from-lunar/{}", key), "LunarDay", key.clone(), format!("panic: {}", msg), "no panic".into()),
      }
    }
  }
}

/// one history operation on civil day n: a drawn route to the pillar or the weekday
fn history_op(n: i64, rng: &mut crate::util::Rng) -> (String, Vec<String>, u64) {
  use crate::model::ganzhi::pillar_name;
  let name = cal::fmt_dn(n);
  if cal::reform_era_day(n) {
    return (format!("skip({})", name), vec![], 0);
  }
  let (wp, ww) = (cal::day_pillar(n), cal::weekday(n));
  let sd = sd_of_dn(n);
  let mut bad = vec![];
  let label;
  match rng.below(6) {
    0 => {
      label = format!("lunar-route({})", name);
      let l = sd.get_lunar_day();
      let got = (l.get_sixty_cycle().get_index() as i64, l.get_week().get_index() as i64);
      if got != (wp, ww) {
        bad.push(format!("pillar {} weekday {} (expected {} / {})", pillar_name(got.0), got.1, pillar_name(wp), ww));
      }
    }
    1 => {
      label = format!("sixty-route({})", name);
      let d = sd.get_sixty_cycle_day();
      let got = (d.get_sixty_cycle().get_index() as i64, dn_of(&d.get_solar_day()));
      if got != (wp, Some(n)) {
        bad.push(format!("pillar {} on {:?} (expected {} on {})", pillar_name(got.0), got.1.map(cal::fmt_dn), pillar_name(wp), name));
      }
    }
    2 => {
      label = format!("weekday({})", name);
      let got = (sd.get_week().get_index() as i64, sd.get_julian_day().get_week().get_index() as i64);
      if got != (ww, ww) {
        bad.push(format!("weekday {:?} (expected {})", got, ww));
      }
    }
    3 | 4 => {
      // from the lunar side: the label the enumeration gives this civil day, built by label
      let seq = lunar_seq();
      let k = seq.months.partition_point(|lm| lm.first <= n);
      if k == 0 {
        return (format!("skip({})", name), vec![], 0);
      }
      let lm = seq.months[k - 1];
      if n >= lm.first + lm.days {
        return (format!("skip({})", name), vec![], 0);
      }
      let d = n - lm.first + 1;
      label = format!("from-label({}-{:02})", fmt_lym(lm.y, lm.m), d);
      let l = LunarDay::from_ymd(lm.y as isize, lm.m as isize, d as usize);
      let got = (l.get_sixty_cycle().get_index() as i64, l.get_sixty_cycle_day().get_sixty_cycle().get_index() as i64, l.get_week().get_index() as i64, dn_of(&l.get_solar_day()));
      if got != (wp, wp, ww, Some(n)) {
        bad.push(format!("pillar {} / view {} weekday {} civil {:?} (expected {} weekday {} civil {})", pillar_name(got.0), pillar_name(got.1), got.2, got.3.map(cal::fmt_dn), pillar_name(wp), ww, name));
      }
    }
    _ => {
      label = format!("yesterday+1({})", name);
      if n > cal::FIRST && !cal::reform_era_day(n - 1) {
        use tyme4rs::tyme::Tyme;
        let y = sd_of_dn(n - 1).get_lunar_day();
        let _ = y.get_sixty_cycle_day();
        let t = y.next(1);
        let got = (t.get_sixty_cycle().get_index() as i64, t.get_sixty_cycle_day().get_sixty_cycle().get_index() as i64);
        if got != (wp, wp) {
          bad.push(format!("pillar {} / view {} (expected {})", pillar_name(got.0), pillar_name(got.1), pillar_name(wp)));
        }
      }
    }
  }
  (label, bad, 1)
}

pub fn run(cfg: &Cfg) -> (Log, Meta) {
  crate::util::set_thread_cap(8);
  let mut log = Log::new();
  if let Err(e) = cal::self_test() {
    log.harness_error(&format!("oracle self-test failed: {}", e));
  }
  let sample = day_sample_years(cfg);
  let c = cal();
  log.merge(par_range(TOTAL_DAYS, 2048, |i, l| {
    let n = BASE + i as i64;
    let sixty = match cfg.tier {
      Tier::Thorough => true,
      Tier::Quick => sample.binary_search(&c.date(n).0).is_ok(),
    };
    // the stepped route costs five more conversions per day: every 4th sampled day in quick
    let stepped = sixty && (cfg.tier == Tier::Thorough || (n as u64) % 4 == cfg.seed % 4);
    check_day(n, sixty, stepped, l)
  }));
  let lunar_years: Vec<i64> = match cfg.tier {
    Tier::Thorough => (0..=9999).collect(),
    Tier::Quick => (0..=9999).filter(|y| y % 50 == (cfg.seed % 50) as i64 || *y < 30).collect(),
  };
  log.merge(par_range(lunar_years.len(), 4, |i, l| lunar_year(lunar_years[i], l)));
  let nh = cfg.tier.pick(30_000usize, 500_000usize);
  log.merge(par_range(nh, 100, |i, l| crate::history::day_walk("C07", "a sequence of pillar / weekday look-ups on related days on one thread", i, cfg.seed, cal::FIRST + 6, LAST - 1, l, history_op)));
  log.floor("history.answers_judged", cfg.tier.pick(250_000, 4_000_000));
  log.floor("day.month_start_adjacencies", 119_000);
  log.floor("day.year_start_adjacencies", 9_999);
  log.floor("day.cutover_adjacency_1582", 2);
  log.floor("day.lunar_month_boundary_adjacencies", 100_000);
  log.floor("day.sixty_cycle_day_route", cfg.tier.pick(100_000, 3_600_000));
  log.floor("day.stepped_from_a_warm_lunar_date", cfg.tier.pick(25_000, 3_000_000));
  log.floor("lunar.days_from_the_lunar_side", cfg.tier.pick(50_000, 3_600_000));
  let meta = Meta {
    rule: format!(
      "exhaustive over all 3,652,061 civil dates for the lunar-date route to the pillar and the three weekday routes (SolarDay, JulianDay, LunarDay), each compared with (N+49) mod 60 and (N+1) mod 7 on the harness day number N; the sexagenary-day route on {} (on the same days, every 4th of them in quick, also: a lunar date with filled memos stepped by +1, -1, +3, +29, -30 days must carry the pillar of the target day by every route); every lunar (year, month, day) of {} lunar years from the lunar side; histories: {} seeded single-thread sequences of 6..16 look-ups (lunar route, sexagenary-day route, weekday routes, the day built from its lunar label, yesterday's warm lunar date stepped by one) - {}. Non-trivial = adjacencies across month starts (counted; year starts, the 1582 cut-over and lunar month boundaries are counted separately).",
      match cfg.tier {
        Tier::Thorough => "every civil date".to_string(),
        Tier::Quick => format!("every date of {} sampled years", sample.len()),
      },
      lunar_years.len(),
      nh,
      crate::history::WALK_TEXT
    ),
    assumptions: vec!["anchors: 2000-01-01 = JDN 2451545 = Wuwu day, Saturday; 1949-10-01 = Jiazi day (checked in the oracle self-test)".into()],
    exhaustive: cfg.tier == Tier::Thorough,
  };
  (log, meta)
}
