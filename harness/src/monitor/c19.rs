//! C19 — stem and branch attributes match the classical correspondence rules.
//! The oracle is written by rule and by NAME (rhymes, cycles, run-lengths), never by index array.
use crate::log::Log;
use crate::model::ganzhi::{month_pillar, pillar_name, BRANCHES, STEMS};
use crate::util::guard;
use crate::{Cfg, Meta};
use tyme4rs::tyme::culture::fetus::{FetusDay, FetusMonth};
use tyme4rs::tyme::culture::peng_zu::PengZu;
use tyme4rs::tyme::culture::ren::minor::MinorRen;
use tyme4rs::tyme::culture::star::nine::NineStar;
use tyme4rs::tyme::culture::star::twelve::TwelveStar;
use tyme4rs::tyme::culture::star::twenty_eight::TwentyEightStar;
use tyme4rs::tyme::culture::{Direction, Element};
use tyme4rs::tyme::eightchar::EightChar;
use tyme4rs::tyme::enums::{Side, YinYang};
use tyme4rs::tyme::lunar::{LunarMonth, LunarYear};
use tyme4rs::tyme::sixtycycle::{EarthBranch, HeavenStem, SixtyCycle};
use tyme4rs::tyme::solar::SolarDay;
use tyme4rs::tyme::Culture;

struct Ck<'a> {
  log: &'a mut Log,
}

impl<'a> Ck<'a> {
  fn eq(&mut self, sig: String, what: &str, got: String, want: String) {
    self.log.ev(1);
    self.log.nt(1);
    if got != want {
      self.log.violate(format!("C19/{}", sig), what, sig.clone(), got, want);
    }
  }
}

// ---------- the rules

fn stem_element(s: &str) -> &'static str {
  match s {
    "甲" | "乙" => "木",
    "丙" | "丁" => "火",
    "戊" | "己" => "土",
    "庚" | "辛" => "金",
    _ => "水",
  }
}

fn stem_is_yang(s: &str) -> bool {
  matches!(s, "甲" | "丙" | "戊" | "庚" | "壬")
}

fn branch_element(b: &str) -> &'static str {
  match b {
    "寅" | "卯" => "木",
    "巳" | "午" => "火",
    "申" | "酉" => "金",
    "亥" | "子" => "水",
    _ => "土",
  }
}

fn branch_is_yang(b: &str) -> bool {
  matches!(b, "子" | "寅" | "辰" | "午" | "申" | "戌")
}

fn generates(e: &str) -> &'static str {
  match e {
    "木" => "火",
    "火" => "土",
    "土" => "金",
    "金" => "水",
    _ => "木",
  }
}

fn overcomes(e: &str) -> &'static str {
  match e {
    "木" => "土",
    "土" => "水",
    "水" => "火",
    "火" => "金",
    _ => "木",
  }
}

fn element_direction(e: &str) -> &'static str {
  match e {
    "木" => "东",
    "火" => "南",
    "土" => "中",
    "金" => "西",
    _ => "北",
  }
}

/// later-heaven trigram -> direction
fn trigram(t: &str) -> &'static str {
  match t {
    "坎" => "北",
    "坤" => "西南",
    "震" => "东",
    "巽" => "东南",
    "乾" => "西北",
    "兑" => "西",
    "艮" => "东北",
    "离" => "南",
    _ => "中",
  }
}

/// 24-mountain direction of a branch
fn branch_mountain(b: &str) -> &'static str {
  match b {
    "子" => "北",
    "丑" | "寅" => "东北",
    "卯" => "东",
    "辰" | "巳" => "东南",
    "午" => "南",
    "未" | "申" => "西南",
    "酉" => "西",
    _ => "西北",
  }
}

fn animal_branch(a: &str) -> &'static str {
  match a {
    "鼠" => "子",
    "牛" => "丑",
    "虎" => "寅",
    "兔" => "卯",
    "龙" => "辰",
    "蛇" => "巳",
    "马" => "午",
    "羊" => "未",
    "猴" => "申",
    "鸡" => "酉",
    "狗" => "戌",
    _ => "亥",
  }
}

fn ten_star(me: &str, other: &str) -> &'static str {
  let (a, b) = (stem_element(me), stem_element(other));
  let same = stem_is_yang(me) == stem_is_yang(other);
  if a == b {
    if same {
      "比肩"
    } else {
      "劫财"
    }
  } else if generates(a) == b {
    if same {
      "食神"
    } else {
      "伤官"
    }
  } else if overcomes(a) == b {
    if same {
      "偏财"
    } else {
      "正财"
    }
  } else if overcomes(b) == a {
    if same {
      "七杀"
    } else {
      "正官"
    }
  } else if same {
    "偏印"
  } else {
    "正印"
  }
}

const STAGES: [&str; 12] = ["长生", "沐浴", "冠带", "临官", "帝旺", "衰", "病", "死", "墓", "绝", "胎", "养"];

fn birth_branch(s: &str) -> &'static str {
  match s {
    "甲" => "亥",
    "丙" | "戊" => "寅",
    "庚" => "巳",
    "壬" => "申",
    "乙" => "午",
    "丁" | "己" => "酉",
    "辛" => "子",
    _ => "卯",
  }
}

fn bidx(b: &str) -> i64 {
  BRANCHES.iter().position(|x| *x == b).unwrap() as i64
}

fn growth_stage(s: &str, b: &str) -> &'static str {
  let d = if stem_is_yang(s) { bidx(b) - bidx(birth_branch(s)) } else { bidx(birth_branch(s)) - bidx(b) };
  STAGES[d.rem_euclid(12) as usize]
}

fn hidden(b: &str) -> Vec<&'static str> {
  match b {
    "子" => vec!["癸"],
    "丑" => vec!["己", "癸", "辛"],
    "寅" => vec!["甲", "丙", "戊"],
    "卯" => vec!["乙"],
    "辰" => vec!["戊", "乙", "癸"],
    "巳" => vec!["丙", "庚", "戊"],
    "午" => vec!["丁", "己"],
    "未" => vec!["己", "丁", "乙"],
    "申" => vec!["庚", "壬", "戊"],
    "酉" => vec!["辛"],
    "戌" => vec!["戊", "辛", "丁"],
    _ => vec!["壬", "甲"],
  }
}

fn pair_of(x: &str, pairs: &[(&'static str, &'static str)]) -> &'static str {
  for (a, b) in pairs {
    if *a == x {
      return b;
    }
    if *b == x {
      return a;
    }
  }
  "?"
}

const FIVE_COMBINE: [(&str, &str); 5] = [("甲", "己"), ("乙", "庚"), ("丙", "辛"), ("丁", "壬"), ("戊", "癸")];
const SIX_COMBINE: [(&str, &str); 6] = [("子", "丑"), ("寅", "亥"), ("卯", "戌"), ("辰", "酉"), ("巳", "申"), ("午", "未")];
const CLASH: [(&str, &str); 6] = [("子", "午"), ("丑", "未"), ("寅", "申"), ("卯", "酉"), ("辰", "戌"), ("巳", "亥")];
const HARM: [(&str, &str); 6] = [("子", "未"), ("丑", "午"), ("寅", "巳"), ("卯", "辰"), ("申", "亥"), ("酉", "戌")];

fn five_combine_element(s: &str) -> &'static str {
  match s {
    "甲" | "己" => "土",
    "乙" | "庚" => "金",
    "丙" | "辛" => "水",
    "丁" | "壬" => "木",
    _ => "火",
  }
}

fn six_combine_element(b: &str) -> &'static str {
  match b {
    "子" | "丑" => "土",
    "寅" | "亥" => "木",
    "卯" | "戌" => "火",
    "辰" | "酉" => "金",
    "巳" | "申" => "水",
    _ => "土",
  }
}

const NAYIN: [&str; 30] = [
  "海中金", "炉中火", "大林木", "路旁土", "剑锋金", "山头火", "涧下水", "城头土", "白蜡金", "杨柳木", "泉中水", "屋上土", "霹雳火", "松柏木", "长流水", "沙中金", "山下火", "平地木", "壁上土", "金箔金", "覆灯火", "天河水", "大驿土", "钗钏金", "桑柘木", "大溪水", "沙中土", "天上火", "石榴木", "大海水",
];

/// Nayin element by the stem-value + branch-value rule
fn nayin_element(s: &str, b: &str) -> &'static str {
  let sv = match s {
    "甲" | "乙" => 1,
    "丙" | "丁" => 2,
    "戊" | "己" => 3,
    "庚" | "辛" => 4,
    _ => 5,
  };
  let bv = match b {
    "子" | "丑" | "午" | "未" => 1,
    "寅" | "卯" | "申" | "酉" => 2,
    _ => 3,
  };
  let mut v = sv + bv;
  if v > 5 {
    v -= 5;
  }
  ["木", "金", "水", "火", "土"][v - 1]
}

fn zodiac_sign(m: i64, d: i64) -> &'static str {
  let md = m * 100 + d;
  let table: [(i64, i64, &str); 11] = [(321, 419, "白羊"), (420, 520, "金牛"), (521, 621, "双子"), (622, 722, "巨蟹"), (723, 822, "狮子"), (823, 922, "处女"), (923, 1023, "天秤"), (1024, 1122, "天蝎"), (1123, 1221, "射手"), (120, 218, "水瓶"), (219, 320, "双鱼")];
  for (lo, hi, n) in table {
    if md >= lo && md <= hi {
      return n;
    }
  }
  "摩羯"
}

const MANSIONS: [(&str, &str, &str); 28] = [
  ("角", "木", "蛟"), ("亢", "金", "龙"), ("氐", "土", "貉"), ("房", "日", "兔"), ("心", "月", "狐"), ("尾", "火", "虎"), ("箕", "水", "豹"),
  ("斗", "木", "獬"), ("牛", "金", "牛"), ("女", "土", "蝠"), ("虚", "日", "鼠"), ("危", "月", "燕"), ("室", "火", "猪"), ("壁", "水", "獝"),
  ("奎", "木", "狼"), ("娄", "金", "狗"), ("胃", "土", "彘"), ("昴", "日", "鸡"), ("毕", "月", "乌"), ("觜", "火", "猴"), ("参", "水", "猿"),
  ("井", "木", "犴"), ("鬼", "金", "羊"), ("柳", "土", "獐"), ("星", "日", "马"), ("张", "月", "鹿"), ("翼", "火", "蛇"), ("轸", "水", "蚓"),
];

fn mansion_land(name: &str) -> (&'static str, &'static str) {
  match name {
    "角" | "亢" | "氐" => ("钧天", "中"),
    "房" | "心" | "尾" => ("苍天", "东"),
    "箕" | "斗" | "牛" => ("变天", "东北"),
    "女" | "虚" | "危" | "室" => ("玄天", "北"),
    "壁" | "奎" | "娄" => ("幽天", "西北"),
    "胃" | "昴" | "毕" => ("颢天", "西"),
    "觜" | "参" | "井" => ("朱天", "西南"),
    "鬼" | "柳" | "星" => ("炎天", "南"),
    _ => ("阳天", "东南"),
  }
}

fn mansion_lucky(name: &str) -> bool {
  matches!(name, "角" | "房" | "尾" | "箕" | "斗" | "室" | "壁" | "娄" | "胃" | "毕" | "参" | "井" | "张" | "轸")
}

fn yy(y: YinYang) -> &'static str {
  match y {
    YinYang::YANG => "阳",
    YinYang::YIN => "阴",
  }
}

fn checks(log: &mut Log) {
  let mut c = Ck { log };
  // ---------------- stems
  for s in STEMS.iter() {
    let st = HeavenStem::from_name(s);
    let e = stem_element(s);
    c.eq(format!("stem-element/{}", s), "HeavenStem::get_element", st.get_element().get_name(), e.into());
    c.eq(format!("stem-polarity/{}", s), "HeavenStem::get_yin_yang", yy(st.get_yin_yang()).into(), if stem_is_yang(s) { "阳" } else { "阴" }.into());
    c.eq(format!("stem-direction/{}", s), "HeavenStem::get_direction", st.get_direction().get_name(), element_direction(e).into());
    // 甲己在艮乙庚乾，丙辛坤位喜神安。丁壬只在离宫坐，戊癸原在在巽间。
    let joy = match *s {
      "甲" | "己" => "艮",
      "乙" | "庚" => "乾",
      "丙" | "辛" => "坤",
      "丁" | "壬" => "离",
      _ => "巽",
    };
    c.eq(format!("stem-joy-direction/{}", s), "HeavenStem::get_joy_direction", st.get_joy_direction().get_name(), trigram(joy).into());
    // 甲戊坤艮位，乙己是坤坎，庚辛居离艮，丙丁兑与乾，震巽属何日，壬癸贵神安。
    let yang = match *s {
      "甲" => "坤",
      "戊" => "艮",
      "乙" => "坤",
      "己" => "坎",
      "庚" => "离",
      "辛" => "艮",
      "丙" => "兑",
      "丁" => "乾",
      "壬" => "震",
      _ => "巽",
    };
    c.eq(format!("stem-yang-noble/{}", s), "HeavenStem::get_yang_direction", st.get_yang_direction().get_name(), trigram(yang).into());
    // 甲戊见牛羊，乙己鼠猴乡，丙丁猪鸡位，壬癸蛇兔藏，庚辛逢虎马: the two nobles of a stem are the two
    // animals of its line; the Yin noble is the one that is not the Yang noble's
    let animals: (&str, &str) = match *s {
      "甲" | "戊" => ("牛", "羊"),
      "乙" | "己" => ("鼠", "猴"),
      "丙" | "丁" => ("猪", "鸡"),
      "壬" | "癸" => ("蛇", "兔"),
      _ => ("虎", "马"),
    };
    let d1 = branch_mountain(animal_branch(animals.0));
    let d2 = branch_mountain(animal_branch(animals.1));
    let yin_got = st.get_yin_direction().get_name();
    let yang_got = st.get_yang_direction().get_name();
    let ok = (yin_got == d1 && yang_got == d2) || (yin_got == d2 && yang_got == d1);
    c.eq(format!("stem-yin-noble/{}", s), "HeavenStem::get_yin_direction", format!("yin {} yang {}", yin_got, yang_got), if ok { format!("yin {} yang {}", yin_got, yang_got) } else { format!("the directions of {} and {} ({} / {})", animals.0, animals.1, d1, d2) });
    // the same stem-by-stem assignment written out: 甲牛 乙鼠 丙猪 丁鸡 戊羊 己猴 庚虎 辛马 壬蛇 癸兔
    let yin_animal = match *s {
      "甲" => "牛",
      "乙" => "鼠",
      "丙" => "猪",
      "丁" => "鸡",
      "戊" => "羊",
      "己" => "猴",
      "庚" => "虎",
      "辛" => "马",
      "壬" => "蛇",
      _ => "兔",
    };
    c.eq(format!("stem-yin-noble-animal/{}", s), "HeavenStem::get_yin_direction", yin_got, branch_mountain(animal_branch(yin_animal)).into());
    // 甲乙东北是财神，丙丁向在西南寻，戊己正北坐方位，庚辛正东去安身，壬癸原来正南坐
    let wealth = match *s {
      "甲" | "乙" => "东北",
      "丙" | "丁" => "西南",
      "戊" | "己" => "北",
      "庚" | "辛" => "东",
      _ => "南",
    };
    c.eq(format!("stem-wealth-direction/{}", s), "HeavenStem::get_wealth_direction", st.get_wealth_direction().get_name(), wealth.into());
    // 甲乙东南是福神，丙丁正东是堪宜，戊北己南庚辛坤，壬在乾方癸在西
    let mascot = match *s {
      "甲" | "乙" => "东南",
      "丙" | "丁" => "东",
      "戊" => "北",
      "己" => "南",
      "庚" | "辛" => trigram("坤"),
      "壬" => trigram("乾"),
      _ => "西",
    };
    c.eq(format!("stem-fortune-direction/{}", s), "HeavenStem::get_mascot_direction", st.get_mascot_direction().get_name(), mascot.into());
    // five combinations
    let partner = pair_of(s, &FIVE_COMBINE);
    c.eq(format!("stem-combine/{}", s), "HeavenStem::get_combine", st.get_combine().get_name(), partner.into());
    c.eq(format!("stem-combine-involution/{}", s), "get_combine twice", st.get_combine().get_combine().get_name(), s.to_string());
    for o in STEMS.iter() {
      let got = st.combine(HeavenStem::from_name(o)).map(|e| e.get_name()).unwrap_or_else(|| "none".into());
      let want = if *o == partner { five_combine_element(s).to_string() } else { "none".to_string() };
      c.eq(format!("stem-combine-element/{}{}", s, o), "HeavenStem::combine", got, want);
      c.eq(format!("ten-star/{}{}", s, o), "HeavenStem::get_ten_star", st.get_ten_star(HeavenStem::from_name(o)).get_name(), ten_star(s, o).into());
    }
    for b in BRANCHES.iter() {
      c.eq(format!("growth-stage/{}{}", s, b), "HeavenStem::get_terrain", st.get_terrain(EarthBranch::from_name(b)).get_name(), growth_stage(s, b).into());
    }
    let pz = PengZu::from_sixty_cycle(SixtyCycle::from_name(&pillar_name(STEMS.iter().position(|x| x == s).unwrap() as i64 * 11 % 60)));
    c.eq(format!("pengzu-stem/{}", s), "PengZu stem line starts with the stem", pz.get_peng_zu_heaven_stem().get_name().chars().next().map(|x| x.to_string()).unwrap_or_default(), s.to_string());
  }
  // ---------------- branches
  let zodiac = ["鼠", "牛", "虎", "兔", "龙", "蛇", "马", "羊", "猴", "鸡", "狗", "猪"];
  for (i, b) in BRANCHES.iter().enumerate() {
    let br = EarthBranch::from_name(b);
    let e = branch_element(b);
    c.eq(format!("branch-element/{}", b), "EarthBranch::get_element", br.get_element().get_name(), e.into());
    c.eq(format!("branch-polarity/{}", b), "EarthBranch::get_yin_yang", yy(br.get_yin_yang()).into(), if branch_is_yang(b) { "阳" } else { "阴" }.into());
    c.eq(format!("branch-direction/{}", b), "EarthBranch::get_direction", br.get_direction().get_name(), element_direction(e).into());
    c.eq(format!("branch-zodiac/{}", b), "EarthBranch::get_zodiac", br.get_zodiac().get_name(), zodiac[i].into());
    c.eq(format!("branch-zodiac-inverse/{}", b), "animal -> branch", animal_branch(zodiac[i]).into(), b.to_string());
    let h = hidden(b);
    c.eq(format!("hidden-main/{}", b), "get_hide_heaven_stem_main", br.get_hide_heaven_stem_main().get_name(), h[0].into());
    c.eq(format!("hidden-middle/{}", b), "get_hide_heaven_stem_middle", br.get_hide_heaven_stem_middle().map(|x| x.get_name()).unwrap_or_else(|| "none".into()), h.get(1).map(|x| x.to_string()).unwrap_or_else(|| "none".into()));
    c.eq(format!("hidden-residual/{}", b), "get_hide_heaven_stem_residual", br.get_hide_heaven_stem_residual().map(|x| x.get_name()).unwrap_or_else(|| "none".into()), h.get(2).map(|x| x.to_string()).unwrap_or_else(|| "none".into()));
    let list: Vec<String> = br.get_hide_heaven_stems().iter().map(|x| x.get_name()).collect();
    c.eq(format!("hidden-list/{}", b), "get_hide_heaven_stems", list.join(""), h.join(""));
    // the main hidden stem has the branch's own element and polarity class
    c.eq(format!("hidden-main-element/{}", b), "main hidden stem element", stem_element(h[0]).into(), e.into());
    c.eq(format!("clash/{}", b), "EarthBranch::get_opposite", br.get_opposite().get_name(), pair_of(b, &CLASH).into());
    c.eq(format!("clash-involution/{}", b), "get_opposite twice", br.get_opposite().get_opposite().get_name(), b.to_string());
    c.eq(format!("six-combine/{}", b), "EarthBranch::get_combine", br.get_combine().get_name(), pair_of(b, &SIX_COMBINE).into());
    c.eq(format!("six-combine-involution/{}", b), "get_combine twice", br.get_combine().get_combine().get_name(), b.to_string());
    c.eq(format!("harm/{}", b), "EarthBranch::get_harm", br.get_harm().get_name(), pair_of(b, &HARM).into());
    c.eq(format!("harm-involution/{}", b), "get_harm twice", br.get_harm().get_harm().get_name(), b.to_string());
    for o in BRANCHES.iter() {
      let got = br.combine(EarthBranch::from_name(o)).map(|e| e.get_name()).unwrap_or_else(|| "none".into());
      let want = if *o == pair_of(b, &SIX_COMBINE) { six_combine_element(b).to_string() } else { "none".to_string() };
      c.eq(format!("six-combine-element/{}{}", b, o), "EarthBranch::combine", got, want);
    }
    // 巳酉丑煞东 亥卯未煞西 申子辰煞南 寅午戌煞北
    let sha = match *b {
      "巳" | "酉" | "丑" => "东",
      "亥" | "卯" | "未" => "西",
      "申" | "子" | "辰" => "南",
      _ => "北",
    };
    c.eq(format!("branch-ominous/{}", b), "EarthBranch::get_ominous", br.get_ominous().get_name(), sha.into());
    let pz = PengZu::from_sixty_cycle(SixtyCycle::from_name(&pillar_name((0..60).find(|x| x % 12 == i as i64).unwrap())));
    c.eq(format!("pengzu-branch/{}", b), "PengZu branch line starts with the branch", pz.get_peng_zu_earth_branch().get_name().chars().next().map(|x| x.to_string()).unwrap_or_default(), b.to_string());
  }
  // ---------------- elements and directions
  for e in ["木", "火", "土", "金", "水"] {
    let el = Element::from_name(e);
    c.eq(format!("element-generates/{}", e), "Element::get_reinforce", el.get_reinforce().get_name(), generates(e).into());
    c.eq(format!("element-overcomes/{}", e), "Element::get_restrain", el.get_restrain().get_name(), overcomes(e).into());
    c.eq(format!("element-generated-by/{}", e), "Element::get_reinforced", generates(&el.get_reinforced().get_name()).into(), e.into());
    c.eq(format!("element-overcome-by/{}", e), "Element::get_restrained", overcomes(&el.get_restrained().get_name()).into(), e.into());
    c.eq(format!("element-inverse-pair/{}", e), "reinforce then reinforced", el.get_reinforce().get_reinforced().get_name(), e.into());
    c.eq(format!("element-inverse-pair2/{}", e), "restrain then restrained", el.get_restrain().get_restrained().get_name(), e.into());
    c.eq(format!("element-direction/{}", e), "Element::get_direction", el.get_direction().get_name(), element_direction(e).into());
  }
  for (d, e) in [("北", "水"), ("西南", "土"), ("东", "木"), ("东南", "木"), ("中", "土"), ("西北", "金"), ("西", "金"), ("东北", "土"), ("南", "火")] {
    c.eq(format!("direction-element/{}", d), "Direction::get_element", Direction::from_name(d).get_element().get_name(), e.into());
  }
  // Luoshu order of the nine directions = nine-star numbers
  let luoshu = ["坎", "坤", "震", "巽", "中", "乾", "兑", "艮", "离"];
  let colours = ["白", "黑", "碧", "绿", "黄", "白", "赤", "白", "紫"];
  let star_elements = ["水", "土", "木", "木", "土", "金", "金", "土", "火"];
  let dippers = ["天枢", "天璇", "天玑", "天权", "玉衡", "开阳", "摇光", "洞明", "隐元"];
  let numerals = ["一", "二", "三", "四", "五", "六", "七", "八", "九"];
  for i in 0..9usize {
    let st = NineStar::from_name(numerals[i]);
    c.eq(format!("nine-star-direction/{}", numerals[i]), "NineStar::get_direction", st.get_direction().get_name(), trigram(luoshu[i]).into());
    c.eq(format!("nine-star-colour/{}", numerals[i]), "NineStar::get_color", st.get_color(), colours[i].into());
    c.eq(format!("nine-star-element/{}", numerals[i]), "NineStar::get_element", st.get_element().get_name(), star_elements[i].into());
    c.eq(format!("nine-star-dipper/{}", numerals[i]), "NineStar::get_dipper", st.get_dipper().get_name(), dippers[i].into());
    // a star's element is its direction's element
    c.eq(format!("nine-star-direction-element/{}", numerals[i]), "direction element", st.get_direction().get_element().get_name(), star_elements[i].into());
  }
  // ---------------- sixty pillars
  let xun = ["甲子", "甲戌", "甲申", "甲午", "甲辰", "甲寅"];
  for p in 0..60i64 {
    let name = pillar_name(p);
    let sc = SixtyCycle::from_name(&name);
    let (s, b) = (STEMS[(p % 10) as usize], BRANCHES[(p % 12) as usize]);
    c.eq(format!("pillar-stem-branch/{}", name), "SixtyCycle stem/branch", format!("{}{}", sc.get_heaven_stem().get_name(), sc.get_earth_branch().get_name()), name.clone());
    let sound = sc.get_sound().get_name();
    c.eq(format!("nayin-name/{}", name), "SixtyCycle::get_sound", sound.clone(), NAYIN[(p / 2) as usize].into());
    c.eq(format!("nayin-element/{}", name), "Nayin element by the value rule", sound.chars().last().map(|x| x.to_string()).unwrap_or_default(), nayin_element(s, b).into());
    // Xun head: step back by the stem's distance from Jia
    let head = pillar_name(p - p % 10);
    c.eq(format!("xun/{}", name), "SixtyCycle::get_ten", sc.get_ten().get_name(), head.clone());
    c.eq(format!("xun-is-listed/{}", name), "Xun head name", if xun.contains(&head.as_str()) { "listed" } else { "missing" }.into(), "listed".into());
    // void branches: the two branches that get no stem in this Xun
    let head_branch = (p - p % 10) % 12;
    let want_void = format!("{}{}", BRANCHES[(head_branch + 10).rem_euclid(12) as usize], BRANCHES[(head_branch + 11).rem_euclid(12) as usize]);
    let void: Vec<String> = sc.get_extra_earth_branches().iter().map(|x| x.get_name()).collect();
    c.eq(format!("void-branches/{}", name), "SixtyCycle::get_extra_earth_branches", void.join(""), want_void);
    // foetus spirit of the day
    let fd = FetusDay::new(sc.clone());
    let fs = match s {
      "甲" | "己" => "门",
      "乙" | "庚" => "碓磨",
      "丙" | "辛" => "厨灶",
      "丁" | "壬" => "仓库",
      _ => "房床",
    };
    let fb = match b {
      "子" | "午" => "碓",
      "丑" | "未" => "厕",
      "寅" | "申" => "炉",
      "卯" | "酉" => "门",
      "辰" | "戌" => "栖",
      _ => "床",
    };
    c.eq(format!("fetus-day-stem/{}", name), "FetusDay stem part", fd.get_fetus_heaven_stem().get_name(), fs.into());
    c.eq(format!("fetus-day-branch/{}", name), "FetusDay branch part", fd.get_fetus_earth_branch().get_name(), fb.into());
  }
  // foetus spirit side/direction by run-lengths from Jiazi
  let runs: [(&str, &str, usize); 15] = [("外", "东南", 2), ("外", "南", 5), ("外", "西南", 6), ("外", "西", 5), ("外", "西北", 6), ("外", "北", 5), ("内", "北", 5), ("内", "中", 2), ("内", "南", 3), ("内", "西", 1), ("内", "东", 4), ("内", "中", 1), ("外", "东北", 6), ("外", "东", 5), ("外", "东南", 4)];
  let mut p = 0i64;
  for (side, dir, n) in runs {
    for _ in 0..n {
      let name = pillar_name(p);
      let fd = FetusDay::new(SixtyCycle::from_name(&name));
      let got_side = match fd.get_side() {
        Side::IN => "内",
        Side::OUT => "外",
      };
      c.eq(format!("fetus-day-place/{}", name), "FetusDay side and direction", format!("{}{}", got_side, fd.get_direction().get_name()), format!("{}{}", side, dir));
      p += 1;
    }
  }
  c.eq("fetus-day-runs/total".into(), "run lengths cover the cycle", format!("{}", p), "60".into());
  // the rendered table entry of each pillar, e.g. 甲子 "占门碓 外东南", 己卯 "占大门 外正西", 癸巳 "占房床 房内北":
  // place = stem part + branch part with the classical contractions (门+门 = 大门, 碓磨+碓 = 碓磨,
  // 房床+床 = 房床), prefixed 占 for the 门 entries and the contractions; outside a cardinal direction is 正X
  let mut p = 0i64;
  for (side, dir, n) in runs {
    for _ in 0..n {
      let name = pillar_name(p);
      let (s, b) = (STEMS[(p % 10) as usize], BRANCHES[(p % 12) as usize]);
      let fs = match s {
        "甲" | "己" => "门",
        "乙" | "庚" => "碓磨",
        "丙" | "辛" => "厨灶",
        "丁" | "壬" => "仓库",
        _ => "房床",
      };
      let fb = match b {
        "子" | "午" => "碓",
        "丑" | "未" => "厕",
        "寅" | "申" => "炉",
        "卯" | "酉" => "门",
        "辰" | "戌" => "栖",
        _ => "床",
      };
      let place = match (fs, fb) {
        ("门", "门") => "占大门".to_string(),
        ("碓磨", "碓") => "占碓磨".to_string(),
        ("房床", "床") => "占房床".to_string(),
        ("门", x) => format!("占门{}", x),
        (x, y) => format!("{}{}", x, y),
      };
      let where_ = if side == "内" {
        format!("房内{}", dir)
      } else if dir.chars().count() == 1 && dir != "中" {
        format!("外正{}", dir)
      } else {
        format!("外{}", dir)
      };
      c.eq(format!("fetus-day-entry/{}", name), "FetusDay rendered entry", format!("{}", FetusDay::new(SixtyCycle::from_name(&name))), format!("{} {}", place, where_));
      p += 1;
    }
  }
  let fetus_months = ["占房床", "占户窗", "占门堂", "占厨灶", "占房床", "占床仓", "占碓磨", "占厕户", "占门房", "占房床", "占灶炉", "占房床"];
  for m in 1..=12i64 {
    let got = FetusMonth::from_lunar_month(LunarMonth::from_ym(2023, m as isize)).map(|x| x.get_name()).unwrap_or_else(|| "none".into());
    c.eq(format!("fetus-month/{:02}", m), "FetusMonth::from_lunar_month", got, fetus_months[(m - 1) as usize].into());
  }
  let leap = LunarYear::from_year(2023).get_leap_month() as isize;
  c.eq("fetus-month/leap".into(), "FetusMonth of a leap month", FetusMonth::from_lunar_month(LunarMonth::from_ym(2023, -leap)).map(|x| x.get_name()).unwrap_or_else(|| "none".into()), "none".into());
  // ---------------- mansions
  let zones = [("东", "青龙"), ("北", "玄武"), ("西", "白虎"), ("南", "朱雀")];
  for (i, (name, lum, animal)) in MANSIONS.iter().enumerate() {
    let st = TwentyEightStar::from_name(name);
    c.eq(format!("mansion-order/{}", name), "TwentyEightStar index", format!("{}", st.get_index()), format!("{}", i));
    c.eq(format!("mansion-luminary/{}", name), "TwentyEightStar::get_seven_star", st.get_seven_star().get_name(), lum.to_string());
    c.eq(format!("mansion-animal/{}", name), "TwentyEightStar::get_animal", st.get_animal().get_name(), animal.to_string());
    c.eq(format!("mansion-zone/{}", name), "TwentyEightStar::get_zone", st.get_zone().get_name(), zones[i / 7].0.into());
    c.eq(format!("mansion-beast/{}", name), "Zone::get_beast", st.get_zone().get_beast().get_name(), zones[i / 7].1.into());
    c.eq(format!("mansion-zone-direction/{}", name), "Zone::get_direction", st.get_zone().get_direction().get_name(), zones[i / 7].0.into());
    let (land, dir) = mansion_land(name);
    c.eq(format!("mansion-land/{}", name), "TwentyEightStar::get_land", st.get_land().get_name(), land.into());
    c.eq(format!("mansion-land-direction/{}", name), "Land::get_direction", st.get_land().get_direction().get_name(), dir.into());
    c.eq(format!("mansion-luck/{}", name), "TwentyEightStar::get_luck", st.get_luck().get_name(), if mansion_lucky(name) { "吉" } else { "凶" }.into());
  }
  // ---------------- small cycles with attributes
  for (n, luck, el) in [("大安", "吉", "木"), ("留连", "凶", "水"), ("速喜", "吉", "火"), ("赤口", "凶", "金"), ("小吉", "吉", "木"), ("空亡", "凶", "土")] {
    let r = MinorRen::from_name(n);
    c.eq(format!("minor-ren-luck/{}", n), "MinorRen::get_luck", r.get_luck().get_name(), luck.into());
    c.eq(format!("minor-ren-element/{}", n), "MinorRen::get_element", r.get_element().get_name(), el.into());
  }
  for n in ["青龙", "明堂", "天刑", "朱雀", "金匮", "天德", "白虎", "玉堂", "天牢", "玄武", "司命", "勾陈"] {
    let yellow = matches!(n, "青龙" | "明堂" | "金匮" | "天德" | "玉堂" | "司命");
    let t = TwelveStar::from_name(n);
    c.eq(format!("twelve-star-path/{}", n), "TwelveStar::get_ecliptic", t.get_ecliptic().get_name(), if yellow { "黄道" } else { "黑道" }.into());
    c.eq(format!("twelve-star-luck/{}", n), "Ecliptic::get_luck", t.get_ecliptic().get_luck().get_name(), if yellow { "吉" } else { "凶" }.into());
  }
  // ---------------- zodiac signs, all 366 month-days
  for m in 1..=12i64 {
    for d in 1..=crate::model::cal::nominal_mlen(2024, m) {
      c.eq(format!("zodiac-sign/{:02}-{:02}", m, d), "SolarDay::get_constellation", SolarDay::from_ymd(2024, m as usize, d as usize).get_constellation().get_name(), zodiac_sign(m, d).into());
    }
  }
  // ---------------- eight-character derived pillars: 10 year stems x 12 month branches x 12 hour branches
  for ys in 0..10i64 {
    for mb in 0..12i64 {
      for hb in 0..12i64 {
        let year = pillar_name((0..60).find(|x| x % 10 == ys).unwrap());
        let k = (mb - 2).rem_euclid(12);
        let month = pillar_name(month_pillar(ys, k));
        let day = pillar_name((ys * 7 + mb * 5 + hb) % 60);
        let hour = pillar_name((0..60).find(|x| x % 12 == hb).unwrap());
        let ec = EightChar::new(&year, &month, &day, &hour);
        let key = format!("{}_{}_{}", STEMS[ys as usize], BRANCHES[mb as usize], BRANCHES[hb as usize]);
        // own sign: month and hour counted Yin = 1 .. Chou = 12; 14 - sum, or 26 - sum from 14 on
        let m = k + 1;
        let h = (hb - 2).rem_euclid(12) + 1;
        let s = m + h;
        let off = if s >= 14 { 26 - s } else { 14 - s };
        let own = pillar_name(month_pillar(ys, off - 1));
        c.eq(format!("own-sign/{}", key), "EightChar::get_own_sign", ec.get_own_sign().get_name(), own);
        // body sign: from the Yin palace count to the birth month, then from Zi to the birth hour
        let body = pillar_name(month_pillar(ys, (m + hb).rem_euclid(12)));
        c.eq(format!("body-sign/{}", key), "EightChar::get_body_sign", ec.get_body_sign().get_name(), body);
        if hb == 0 {
          // foetal origin: month stem + 1, month branch + 3
          let mp = month_pillar(ys, k);
          let fo = format!("{}{}", STEMS[((mp % 10 + 1) % 10) as usize], BRANCHES[((mp % 12 + 3) % 12) as usize]);
          c.eq(format!("fetal-origin/{}", key), "EightChar::get_fetal_origin", ec.get_fetal_origin().get_name(), fo);
        }
      }
    }
  }
  // foetal breath: the pillar that combines with the day pillar (five combination + six combination)
  for p in 0..60i64 {
    let name = pillar_name(p);
    let ec = EightChar::new("甲子", "丙寅", &name, "甲子");
    let want = format!("{}{}", pair_of(STEMS[(p % 10) as usize], &FIVE_COMBINE), pair_of(BRANCHES[(p % 12) as usize], &SIX_COMBINE));
    c.eq(format!("fetal-breath/{}", name), "EightChar::get_fetal_breath", ec.get_fetal_breath().get_name(), want);
  }
}

/// stepping must hand out the same attributes as constructing: for every value of each attributed cycle, read
/// all attributes (so that whatever the value memoises is filled), step by every n in -(2 size + 10)..=(2 size + 10)
/// and compare every attribute of the stepped value with those of a freshly constructed value of the target
/// index (which `checks` compares with the rules); the source must answer the same after having been stepped from,
/// and so must a clone
fn stepped(log: &mut Log) {
  use tyme4rs::tyme::Tyme;
  macro_rules! cycle {
    ($name:expr, $ty:ty, $size:expr, $attrs:expr) => {{
      let attrs = $attrs;
      let size: i64 = $size;
      for i in 0..size {
        let r = guard(|| {
          let mut bad: Vec<(String, String, String)> = vec![];
          let a = <$ty>::from_index(i as isize);
          let before: String = attrs(&a);
          for n in -(2 * size + 10)..=(2 * size + 10) {
            let b = a.next(n as isize);
            let fresh = <$ty>::from_index(((i + n).rem_euclid(size)) as isize);
            let (got, want) = (attrs(&b), attrs(&fresh));
            if got != want {
              bad.push((format!("{}_{}_step_{:+}", $name, i, n), got, want));
            }
            // a second hop from the stepped (now warm) value
            let c = b.next(-n as isize);
            let got2: String = attrs(&c);
            if got2 != before {
              bad.push((format!("{}_{}_step_{:+}_and_back", $name, i, n), got2, before.clone()));
            }
          }
          if attrs(&a) != before || attrs(&a.clone()) != before {
            bad.push((format!("{}_{}_after_stepping", $name, i), attrs(&a), before.clone()));
          }
          bad
        });
        log.ev((4 * size + 21) as u64);
        log.count("stepped.value_step_pairs", (4 * size + 21) as u64);
        match r {
          Ok(bad) => {
            for (k, got, want) in bad {
              log.violate(format!("C19/stepped-attributes/{}", k), "attributes of a stepped value vs a constructed one", k.clone(), got, want);
            }
          }
          Err(msg) => log.violate(format!("C19/stepped-attributes/{}_{}", $name, i), "attributes of a stepped value vs a constructed one", format!("{} {}", $name, i), format!("panic: {}", msg), "no panic".into()),
        }
      }
    }};
  }
  let names = |v: Vec<String>| v.join("|");
  cycle!("stem", HeavenStem, 10, |x: &HeavenStem| names(vec![
    x.get_name(),
    x.get_element().get_name(),
    yy(x.get_yin_yang()).to_string(),
    x.get_direction().get_name(),
    x.get_joy_direction().get_name(),
    x.get_yang_direction().get_name(),
    x.get_yin_direction().get_name(),
    x.get_wealth_direction().get_name(),
    x.get_mascot_direction().get_name(),
    x.get_combine().get_name(),
    (0..10).map(|o| x.get_ten_star(HeavenStem::from_index(o)).get_name()).collect::<Vec<_>>().join(","),
    (0..12).map(|o| x.get_terrain(EarthBranch::from_index(o)).get_name()).collect::<Vec<_>>().join(","),
  ]));
  cycle!("branch", EarthBranch, 12, |x: &EarthBranch| names(vec![
    x.get_name(),
    x.get_element().get_name(),
    yy(x.get_yin_yang()).to_string(),
    x.get_zodiac().get_name(),
    x.get_direction().get_name(),
    x.get_opposite().get_name(),
    x.get_combine().get_name(),
    x.get_harm().get_name(),
    x.get_ominous().get_name(),
    x.get_hide_heaven_stem_main().get_name(),
    x.get_hide_heaven_stem_middle().map(|h| h.get_name()).unwrap_or_default(),
    x.get_hide_heaven_stem_residual().map(|h| h.get_name()).unwrap_or_default(),
    x.get_hide_heaven_stems().iter().map(|h| h.get_name()).collect::<Vec<_>>().join(","),
  ]));
  cycle!("pillar", SixtyCycle, 60, |x: &SixtyCycle| names(vec![
    x.get_name(),
    x.get_heaven_stem().get_name(),
    x.get_earth_branch().get_name(),
    x.get_sound().get_name(),
    x.get_ten().get_name(),
    x.get_extra_earth_branches().iter().map(|b| b.get_name()).collect::<Vec<_>>().join(","),
    format!("{}", PengZu::from_sixty_cycle(x.clone())),
  ]));
  cycle!("element", Element, 5, |x: &Element| names(vec![x.get_name(), x.get_reinforce().get_name(), x.get_restrain().get_name(), x.get_reinforced().get_name(), x.get_restrained().get_name(), x.get_direction().get_name()]));
  cycle!("direction", Direction, 9, |x: &Direction| names(vec![x.get_name(), x.get_element().get_name()]));
  cycle!("nine-star", NineStar, 9, |x: &NineStar| names(vec![x.get_name(), x.get_color(), x.get_element().get_name(), x.get_dipper().get_name(), x.get_direction().get_name()]));
  cycle!("mansion", TwentyEightStar, 28, |x: &TwentyEightStar| names(vec![x.get_name(), x.get_seven_star().get_name(), x.get_land().get_name(), x.get_zone().get_name(), x.get_animal().get_name(), x.get_luck().get_name()]));
  cycle!("twelve-star", TwelveStar, 12, |x: &TwelveStar| names(vec![x.get_name(), x.get_ecliptic().get_name(), x.get_ecliptic().get_luck().get_name()]));
  cycle!("minor-ren", MinorRen, 6, |x: &MinorRen| names(vec![x.get_name(), x.get_luck().get_name(), x.get_element().get_name()]));
}

pub fn run(_cfg: &Cfg) -> (Log, Meta) {
  let mut log = Log::new();
  // the relational tables of the oracle are involutions by construction; check the oracle itself
  for (a, b) in FIVE_COMBINE.iter().chain(SIX_COMBINE.iter()).chain(CLASH.iter()).chain(HARM.iter()) {
    if a == b {
      log.harness_error("oracle pair table self-test failed");
    }
  }
  if NAYIN.len() != 30 || MANSIONS.len() != 28 || growth_stage("甲", "亥") != "长生" || growth_stage("乙", "午") != "长生" || growth_stage("甲", "卯") != "帝旺" || growth_stage("乙", "寅") != "帝旺" || ten_star("甲", "庚") != "七杀" || nayin_element("甲", "子") != "金" || nayin_element("丙", "寅") != "火" || nayin_element("壬", "戌") != "水" {
    log.harness_error("oracle rule self-test failed");
  }
  match guard(|| {
    let mut inner = Log::new();
    checks(&mut inner);
    inner
  }) {
    Ok(inner) => log.merge(inner),
    Err(msg) => log.violate("C19/panic/attributes".into(), "attribute getters", "exhaustive sweep".into(), format!("panic: {}", msg), "no panic".into()),
  }
  log.count("checks.rule_based_comparisons", log.evals);
  log.floor("checks.rule_based_comparisons", 4_000);
  match guard(|| {
    let mut inner = Log::new();
    stepped(&mut inner);
    inner
  }) {
    Ok(inner) => log.merge(inner),
    Err(msg) => log.violate("C19/panic/stepped-attributes".into(), "stepped attribute getters", "exhaustive sweep".into(), format!("panic: {}", msg), "no panic".into()),
  }
  log.floor("stepped.value_step_pairs", 10_000);
  log.sample(|| "HeavenStem 甲: element 木, Yang, direction 东, joy 艮=东北, Yang noble 坤=西南, Yin noble 牛=丑=东北, wealth 东北, fortune 东南, combines with 己 into 土".into());
  log.sample(|| "own sign for year stem 甲, month 丑, hour 寅: 12 + 1 = 13 -> 14 - 13 = 1 -> 寅 month of a 甲 year = 丙寅".into());
  let meta = Meta {
    rule: "finite domain enumerated completely: 10 stems (element, polarity, direction, joy / Yang-noble / Yin-noble / wealth / fortune direction rhymes, five combinations + involution), 10 x 10 stem pairs (ten stars by generating/overcoming relation and polarity; combination element), 10 x 12 growth stages from the birth branches, 12 branches (element, polarity, direction, zodiac, hidden stems, clash / six combination / harm + involutions, ominous direction, combination elements over 12 x 12), 5 elements and 9 directions (cycles, inverse pairs), 9 stars, 60 pillars (Nayin name and element by the value rule, Xun head, void branches, foetus spirit parts and place by run-lengths), 12 + 1 foetus months, 28 mansions (order, luminary, animal, zone, beast, land, land direction, luck), minor Ren and twelve-spirit attributes, 366 month-days of zodiac signs, 1,440 (year stem, month branch, hour branch) own/body signs and foetal origin, 60 foetal breaths; every comparison is by name against an encoding written from the rules; then, for every value of the nine attributed cycles (stems, branches, pillars, elements, directions, nine stars, mansions, twelve spirits, minor Ren), all attributes are read, the value is stepped by every n in -(2 size + 10)..(2 size + 10) and back, and all attributes of the stepped values are compared with those of freshly constructed values. Non-trivial = every comparison.".into(),
    assumptions: vec!["the oracle is the harness' own transcription of the classical rules (DESIGN section 9); its relational tables and a few spot values are self-tested".into()],
    exhaustive: true,
  };
  (log, meta)
}
