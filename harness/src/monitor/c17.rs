//! C17 — daily and hourly almanac cycles obey their defining recurrences.
use crate::api::*;
use crate::log::Log;
use crate::model::cal::{self, cal, day_pillar, weekday, LAST};
use crate::model::ganzhi::year_pillar;
use crate::model::lunar_seq::lunar_seq;
use crate::model::pillars::year_month_of;
use crate::model::terms::terms;
use crate::monitor::day_sample_years;
use crate::util::{guard, mix, par_range, Rng};
use crate::{Cfg, Meta, Tier};
use tyme4rs::tyme::lunar::{LunarMonth, LunarYear};
use tyme4rs::tyme::sixtycycle::{SixtyCycleMonth, SixtyCycleYear};
use tyme4rs::tyme::Culture;

type V = Vec<(&'static str, String, String)>;

const LUMINARIES: [&str; 7] = ["日", "月", "火", "水", "木", "金", "土"];

/// branch from which Qinglong starts, by the governing (month or day) branch: 寅申->子 卯酉->寅 辰戌->辰 巳亥->午 子午->申 丑未->戌
fn qinglong_start(b: i64) -> i64 {
  match b.rem_euclid(12) {
    2 | 8 => 0,
    3 | 9 => 2,
    4 | 10 => 4,
    5 | 11 => 6,
    0 | 6 => 8,
    _ => 10,
  }
}

/// Jiazi day nearest to day t (at most 29 days before, else after)
fn nearest_jiazi(t: i64) -> i64 {
  let idx = day_pillar(t);
  if idx > 29 {
    t + 60 - idx
  } else {
    t - idx
  }
}

fn check_year_days(y: i64, log: &mut Log) {
  let t = terms();
  let c = cal();
  let lo = c.year_first(y);
  let hi = if y == 9999 { LAST } else { c.year_first(y + 1) - 1 };
  let (dz, xz, dz2) = (t.get(y, 0).dn, t.get(y, 12).dn, t.get(y + 1, 0).dn);
  let (sb, nz, sb2) = (nearest_jiazi(dz), nearest_jiazi(xz), nearest_jiazi(dz2));
  let mut prev_mansion: Option<i64> = None;
  // yesterday's lunar date with all its memos filled; today's officer / spirit are also read from
  // prev_ld.next(1) (a stale memo carried over by stepping shows up only on this route)
  let mut prev_ld: Option<tyme4rs::tyme::lunar::LunarDay> = None;
  // day nine star of the day before the year starts (continuity across 31 December -> 1 January)
  let mut prev_nine: Option<i64> = if y >= 3 { guard(|| sd_of_dn(lo - 1).get_sixty_cycle_day().get_nine_star().get_index() as i64).ok() } else { None };
  for n in lo..=hi {
    let key = cal::fmt_dn(n);
    let g = match t.governing_day(n) {
      Some(g) => t.v[g],
      None => continue,
    };
    log.ev(1);
    let (_, k) = year_month_of(&g);
    let mb = (2 + k) % 12;
    let db = day_pillar(n) % 12;
    let want_duty = (db - mb).rem_euclid(12);
    let want_twelve = (db - qinglong_start(mb)).rem_euclid(12);
    let want_mansion = (n + 11).rem_euclid(28);
    let want_nine = if n >= sb && n < nz {
      (n - sb).rem_euclid(9)
    } else if n >= nz && n < sb2 {
      (8 - (n - nz)).rem_euclid(9)
    } else if n >= sb2 {
      (n - sb2).rem_euclid(9)
    } else {
      (8 + (sb - n)).rem_euclid(9)
    };
    if n == g.dn && g.i % 2 == 1 {
      log.count("day.jie_days_where_the_officer_repeats", 1);
      log.nt(1);
    }
    if n == sb || n == nz || n == sb2 {
      log.count("day.nine_star_turning_days", 1);
      log.nt(1);
    }
    let r = guard(|| {
      let mut out: V = vec![];
      let sd = sd_of_dn(n);
      let scd = sd.get_sixty_cycle_day();
      let ld = sd.get_lunar_day();
      let (lm, ldd) = (ld.get_month() as i64, ld.get_day() as i64);
      let duty = scd.get_duty().get_index() as i64;
      if duty != want_duty || ld.get_duty().get_index() as i64 != want_duty {
        out.push(("duty", format!("{} / lunar {}", duty, ld.get_duty().get_index()), format!("{} (day branch {} month branch {})", want_duty, db, mb)));
      }
      let tw = scd.get_twelve_star().get_index() as i64;
      if tw != want_twelve || ld.get_twelve_star().get_index() as i64 != want_twelve {
        out.push(("twelve-star", format!("{} / lunar {}", tw, ld.get_twelve_star().get_index()), format!("{}", want_twelve)));
      }
      let ms = scd.get_twenty_eight_star();
      let m28 = ms.get_index() as i64;
      if m28 != want_mansion || ld.get_twenty_eight_star().get_index() as i64 != want_mansion {
        out.push(("mansion", format!("{} / lunar {}", m28, ld.get_twenty_eight_star().get_index()), format!("{}", want_mansion)));
      }
      if ms.get_seven_star().get_name() != LUMINARIES[weekday(n) as usize] {
        out.push(("mansion-luminary", ms.get_seven_star().get_name(), LUMINARIES[weekday(n) as usize].to_string()));
      }
      // separately guarded: in civil year 1 the star needs the winter solstice of year 0 (listed finding)
      match guard(|| (scd.get_nine_star().get_index() as i64, ld.get_nine_star().get_index() as i64)) {
        Ok((nine, lnine)) => {
          if nine != want_nine || lnine != want_nine {
            out.push(("day-nine-star", format!("{} / lunar {}", nine, lnine), format!("{}", want_nine)));
          }
        }
        Err(msg) => out.push(("day-nine-star", format!("panic: {}", msg), format!("{}", want_nine))),
      }
      let six = ld.get_six_star().get_index() as i64;
      if six != (lm.abs() + ldd - 2).rem_euclid(6) {
        out.push(("six-star", format!("{} on lunar {}/{}", six, lm, ldd), format!("{}", (lm.abs() + ldd - 2).rem_euclid(6))));
      }
      if ld.get_phase().get_index() as i64 != ldd - 1 {
        out.push(("phase", format!("{}", ld.get_phase().get_index()), format!("{}", ldd - 1)));
      }
      let ren = ld.get_minor_ren().get_index() as i64;
      if ren != (lm.abs() - 1 + ldd - 1).rem_euclid(6) {
        out.push(("minor-ren", format!("{}", ren), format!("{}", (lm.abs() - 1 + ldd - 1).rem_euclid(6))));
      }
      let nine_now = guard(|| scd.get_nine_star().get_index() as i64).ok();
      if let Some(p) = &prev_ld {
        if !cal::reform_era_near(n) {
          let st = tyme4rs::tyme::Tyme::next(p, 1);
          let got = (st.get_duty().get_index() as i64, st.get_twelve_star().get_index() as i64, st.get_twenty_eight_star().get_index() as i64, st.get_six_star().get_index() as i64, dn_of(&st.get_solar_day()), dn_of(&st.get_sixty_cycle_day().get_solar_day()));
          let want = (want_duty, want_twelve, want_mansion, (lm.abs() + ldd - 2).rem_euclid(6), Some(n), Some(n));
          if got != want {
            out.push(("stepped-lunar-date", format!("{:?}", got), format!("{:?} (officer, spirit, mansion, six-day star, civil day, view day)", want)));
          }
        }
      }
      (out, m28, lm, nine_now, ld.clone())
    });
    match r {
      Ok((v, m28, lm, nine_now, ld_now)) => {
        prev_ld = Some(ld_now);
        log.count("day.stepped_from_yesterdays_warm_lunar_date", 1);
        // continuity: the star moves by exactly one step per day, except that the sequence restarts
        // (same star on two consecutive days) on a turning Jiazi day
        if let (Some(p), Some(c)) = (prev_nine, nine_now) {
          let d = (c - p).rem_euclid(9);
          let turning = n == sb || n == nz || n == sb2;
          if !(d == 1 || d == 8 || turning) {
            // the library computes 1 January .. (winter Jiazi - 1) by counting back from the coming winter
            // Jiazi day instead of continuing the descent from the previous summer's; the two agree only
            // when that descent lasts 180 days.  With 240 days the star jumps at the year join.
            let nz_prev = if y >= 2 { nearest_jiazi(t.get(y - 1, 12).dn) } else { nz };
            if n == lo && (sb - nz_prev) % 9 != 0 {
              log.count("day.year_joins_after_a_240_day_descent", 1);
              log.violate(format!("C17/day-nine-star-year-join/{}", key), "day nine star across 31 December -> 1 January", key.clone(), format!("{} after {}", c, p), format!("one step down (the descent from {} lasts {} days)", cal::fmt_dn(nz_prev), sb - nz_prev));
            } else {
              log.violate(format!("C17/day-nine-star-continuity/{}", key), "day nine star moves one step per day", key.clone(), format!("{} after {}", c, p), "one step up or down (or a restart on a turning Jiazi day)".into());
            }
          }
        }
        prev_nine = nine_now;
        if lm < 0 {
          log.count("day.leap_month_days", 1);
          log.nt(1);
        }
        if let Some(p) = prev_mansion {
          if m28 != (p + 1) % 28 {
            log.violate(format!("C17/mansion-step/{}", key), "mansion advances one per day", key.clone(), format!("{} after {}", m28, p), format!("{}", (p + 1) % 28));
          }
        }
        prev_mansion = Some(m28);
        for (mon, o, e) in v {
          log.violate(format!("C17/{}/{}", mon, key), mon, key.clone(), o, e);
        }
      }
      Err(msg) => {
        prev_mansion = None;
        prev_nine = None;
        prev_ld = None;
        log.violate(format!("C17/day-panic/{}", key), "day almanac", key.clone(), format!("panic: {}", msg), "no panic".into());
      }
    }
    log.sample(|| format!("{}: duty {} spirit {} mansion {} nine star {} (month branch {}, day branch {})", key, want_duty, want_twelve, want_mansion, want_nine, mb, db));
  }
}

/// every leap-month day of lunar year y: six-day star with the month's own number
fn leap_month_days(y: i64, log: &mut Log) {
  let seq = lunar_seq();
  for lm in seq.year_slice(y).iter().filter(|m| m.m < 0) {
    if !cal().in_range(lm.first) || !cal().in_range(lm.first + lm.days) {
      continue;
    }
    for d in 1..=lm.days {
      log.ev(1);
      log.count("six.leap_month_days", 1);
      log.nt(1);
      let key = fmt_lymd((lm.y, lm.m, d));
      let want = (lm.m.abs() + d - 2).rem_euclid(6);
      match guard(|| {
        let l = tyme4rs::tyme::lunar::LunarDay::from_ymd(lm.y as isize, lm.m as isize, d as usize);
        let twin = tyme4rs::tyme::lunar::LunarDay::from_ymd(lm.y as isize, lm.m.abs() as isize, d.min(29) as usize);
        (l.get_six_star().get_index() as i64, twin.get_six_star().get_index() as i64, l.get_minor_ren().get_index() as i64, l.get_phase().get_index() as i64)
      }) {
        Ok((six, twin, ren, phase)) => {
          if six != want {
            log.violate(format!("C17/six-star-leap/{}", key), "LunarDay::get_six_star", key.clone(), format!("{}", six), format!("{}", want));
          }
          if d <= 29 && twin != six {
            log.violate(format!("C17/six-star-leap-twin/{}", key), "leap month uses its own number", key.clone(), format!("leap {} regular {}", six, twin), "equal".into());
          }
          if ren != (lm.m.abs() - 1 + d - 1).rem_euclid(6) || phase != d - 1 {
            log.violate(format!("C17/ren-phase-leap/{}", key), "minor Ren / phase", key.clone(), format!("{} {}", ren, phase), format!("{} {}", (lm.m.abs() - 1 + d - 1).rem_euclid(6), d - 1));
          }
        }
        Err(msg) => log.violate(format!("C17/six-star-leap/{}", key), "LunarDay::get_six_star", key.clone(), format!("panic: {}", msg), format!("{}", want)),
      }
    }
  }
}

/// hourly cycles on civil day n: hours 0, 1, 3, .., 21 (the twelve double-hours without the 23:00 slot)
fn hours_of_day(n: i64, log: &mut Log) {
  let t = terms();
  let (y, _, _) = cal().date(n);
  let (dz, xz, dz2) = (t.get(y, 0).dn, t.get(y, 12).dn, t.get(y + 1, 0).dn);
  let asc = (n >= dz && n < xz) || n >= dz2;
  let dbr = day_pillar(n) % 12;
  let desc_start = match dbr % 3 {
    0 => 8, // 子午卯酉: 九 / 一
    1 => 5, // 辰戌丑未: 六 / 四
    _ => 2, // 寅申巳亥: 三 / 七
  };
  if n == dz2 || n == xz || n == dz {
    log.count("hour.solstice_days", 1);
  }
  if n > dz2 {
    log.count("hour.days_after_the_december_solstice", 1);
  }
  for slot in 0..12i64 {
    let h = if slot == 0 { 0 } else { 2 * slot - 1 };
    let a = n * 86400 + h * 3600 + 1800;
    let key = || fmt_abs(a);
    log.ev(1);
    log.count("hour.double_hours", 1);
    let want_nine = if asc { (8 - desc_start + slot).rem_euclid(9) } else { (desc_start - slot).rem_euclid(9) };
    let want_tw = (slot - qinglong_start(dbr)).rem_euclid(12);
    let r = guard(|| {
      let st = st_of_abs(a);
      let lh = st.get_lunar_hour();
      let sh = st.get_sixty_cycle_hour();
      let l = lh.get_lunar_day();
      (lh.get_nine_star().get_index() as i64, sh.get_nine_star().get_index() as i64, lh.get_twelve_star().get_index() as i64, sh.get_twelve_star().get_index() as i64, lh.get_minor_ren().get_index() as i64, l.get_month() as i64, l.get_day() as i64)
    });
    match r {
      Ok((n1, n2, t1, t2, ren, lm, ld)) => {
        if n1 != want_nine || n2 != want_nine {
          log.violate(format!("C17/hour-nine-star/{}", key()), "hour nine star", key(), format!("lunar-hour {} sixty-hour {}", n1, n2), format!("{} ({} from the day-branch group of branch {})", want_nine, if asc { "ascending" } else { "descending" }, dbr));
        }
        if t1 != want_tw || t2 != want_tw {
          log.violate(format!("C17/hour-twelve-star/{}", key()), "hour twelve star", key(), format!("lunar-hour {} sixty-hour {}", t1, t2), format!("{}", want_tw));
        }
        let wr = (lm.abs() - 1 + ld - 1 + slot).rem_euclid(6);
        if ren != wr {
          log.violate(format!("C17/hour-minor-ren/{}", key()), "hour minor Ren", key(), format!("{}", ren), format!("{}", wr));
        }
      }
      Err(msg) => log.violate(format!("C17/hour-panic/{}", key()), "hour almanac", key(), format!("panic: {}", msg), "no panic".into()),
    }
  }
}

/// the lunar day handed out by an hour that has already answered hour-level questions gives the same day-level
/// almanac as a freshly built day of the same civil date (23:30, midnight, a random hour; on Jie days also the
/// seconds around the term instant): the day's cycles turn with the civil day, not with the hour's pillars
fn day_via_hour(n: i64, seed: u64, log: &mut Log) {
  use tyme4rs::tyme::Culture;
  let t = terms();
  let mut rng = Rng::new(mix(seed, n as u64 ^ 0x2C17));
  let mut times: Vec<i64> = vec![n * 86400 + 23 * 3600 + rng.range(0, 3599), n * 86400 + rng.range(0, 3599), n * 86400 + rng.range(3600, 23 * 3600 - 1)];
  if let Some(g) = t.governing_day(n) {
    for k in [g, g + 1] {
      if k < t.v.len() && t.v[k].dn == n && t.v[k].i % 2 == 1 {
        let js = t.v[k].sec;
        if js - 5 >= n * 86400 {
          times.push(rng.range(n * 86400, js - 5));
        }
        if js + 5 < (n + 1) * 86400 {
          times.push(rng.range(js + 5, (n + 1) * 86400 - 1));
        }
        log.count("via_hour.jie_days", 1);
      }
    }
  }
  type DayT = (Vec<i64>, Vec<String>, Option<i64>);
  #[allow(deprecated)]
  let tuple = |d: &tyme4rs::tyme::lunar::LunarDay| -> DayT {
    let scd = d.get_sixty_cycle_day();
    (
      vec![
        d.get_twenty_eight_star().get_index() as i64,
        d.get_duty().get_index() as i64,
        d.get_twelve_star().get_index() as i64,
        d.get_nine_star().get_index() as i64,
        d.get_six_star().get_index() as i64,
        d.get_sixty_cycle().get_index() as i64,
        d.get_month_sixty_cycle().get_index() as i64,
        d.get_year_sixty_cycle().get_index() as i64,
        d.get_jupiter_direction().get_index() as i64,
        d.get_minor_ren().get_index() as i64,
        scd.get_sixty_cycle().get_index() as i64,
        scd.get_month().get_index() as i64,
        scd.get_year().get_index() as i64,
        scd.get_duty().get_index() as i64,
        scd.get_twenty_eight_star().get_index() as i64,
      ],
      vec![format!("{}", d.get_fetus_day()), d.get_gods().iter().map(|g| g.get_name()).collect::<Vec<_>>().join(","), d.get_recommends().iter().map(|g| g.get_name()).collect::<Vec<_>>().join(","), d.get_avoids().iter().map(|g| g.get_name()).collect::<Vec<_>>().join(",")],
      dn_of(&d.get_solar_day()),
    )
  };
  for (j, a) in times.iter().enumerate() {
    let a = *a;
    let warm = (rng.below(5) as u64 + j as u64) % 5;
    let key = || format!("{}_warm{}", fmt_abs(a), warm);
    log.ev(1);
    log.count("via_hour.days_compared", 1);
    if a.rem_euclid(86400) >= 23 * 3600 {
      log.count("via_hour.late_zi_hours", 1);
    }
    let r = guard(|| {
      let lh = st_of_abs(a).get_lunar_hour();
      match warm {
        0 => {
          let _ = lh.get_sixty_cycle_hour();
        }
        1 => {
          let _ = lh.get_twelve_star();
          let _ = lh.get_nine_star();
        }
        2 => {
          let _ = lh.get_eight_char();
          let _ = lh.get_recommends();
        }
        3 => {
          let _ = lh.get_sixty_cycle_hour().get_sixty_cycle_day();
          let _ = lh.get_avoids();
        }
        _ => {}
      }
      let via = tuple(&lh.get_lunar_day());
      // and through the instant-level view's own day (its solar day is the civil day)
      let via2 = dn_of(&lh.get_sixty_cycle_hour().get_sixty_cycle_day().get_solar_day());
      let fresh = tuple(&sd_of_dn(n).get_lunar_day());
      (via, fresh, via2)
    });
    match r {
      Ok((via, fresh, via2)) => {
        if via != fresh || via.2 != Some(n) || via2 != Some(n) {
          log.violate(format!("C17/day-via-hour/{}", key()), "day almanac of hour.get_lunar_day() after hour-level queries", key(), format!("{:?} (instant view's day {:?})", via, via2), format!("{:?}", fresh));
        }
      }
      Err(msg) => log.violate(format!("C17/day-via-hour/{}", key()), "day almanac of hour.get_lunar_day() after hour-level queries", key(), format!("panic: {}", msg), "no panic".into()),
    }
  }
}

/// (officer, spirit, mansion, day nine star) of civil day n by the same rules as `check_year_days`, for single days
fn day_oracle(n: i64) -> Option<(i64, i64, i64, i64)> {
  let t = terms();
  let (y, _, _) = cal().date(n);
  let g = t.v[t.governing_day(n)?];
  let (dz, xz, dz2) = (t.get(y, 0).dn, t.get(y, 12).dn, t.get(y + 1, 0).dn);
  let (sb, nz, sb2) = (nearest_jiazi(dz), nearest_jiazi(xz), nearest_jiazi(dz2));
  let (_, k) = year_month_of(&g);
  let mb = (2 + k) % 12;
  let db = day_pillar(n) % 12;
  let nine = if n >= sb && n < nz {
    (n - sb).rem_euclid(9)
  } else if n >= nz && n < sb2 {
    (8 - (n - nz)).rem_euclid(9)
  } else if n >= sb2 {
    (n - sb2).rem_euclid(9)
  } else {
    (8 + (sb - n)).rem_euclid(9)
  };
  Some(((db - mb).rem_euclid(12), (db - qinglong_start(mb)).rem_euclid(12), (n + 11).rem_euclid(28), nine))
}

/// one history operation on civil day n: the day series by a drawn route
fn history_op(n: i64, rng: &mut Rng) -> (String, Vec<String>, u64) {
  let name = cal::fmt_dn(n);
  if cal::reform_era_day(n) {
    return (format!("skip({})", name), vec![], 0);
  }
  let want = match day_oracle(n) {
    Some(w) => w,
    None => return (format!("skip({})", name), vec![], 0),
  };
  let mut bad = vec![];
  let sd = sd_of_dn(n);
  let route = rng.below(3);
  let got = match route {
    0 => {
      let d = sd.get_sixty_cycle_day();
      (d.get_duty().get_index() as i64, d.get_twelve_star().get_index() as i64, d.get_twenty_eight_star().get_index() as i64, d.get_nine_star().get_index() as i64)
    }
    1 => {
      let l = sd.get_lunar_day();
      (l.get_duty().get_index() as i64, l.get_twelve_star().get_index() as i64, l.get_twenty_eight_star().get_index() as i64, l.get_nine_star().get_index() as i64)
    }
    _ => {
      // through the noon hour of the day
      let h = st_of_abs(n * 86400 + 43200).get_lunar_hour();
      let _ = h.get_sixty_cycle_hour();
      let l = h.get_lunar_day();
      (l.get_duty().get_index() as i64, l.get_twelve_star().get_index() as i64, l.get_twenty_eight_star().get_index() as i64, l.get_nine_star().get_index() as i64)
    }
  };
  if got != want {
    bad.push(format!("(officer, spirit, mansion, nine star) = {:?}, expected {:?}", got, want));
  }
  (format!("{}({})", ["sixty-day", "lunar-day", "via-noon-hour"][route], name), bad, 1)
}

fn year_and_month_stars(y: i64, log: &mut Log) {
  log.ev(2);
  let key = format!("{:05}", y);
  let want = (1864 - y).rem_euclid(9);
  match guard(|| (LunarYear::from_year(y as isize).get_nine_star().get_index() as i64, SixtyCycleYear::from_year(y as isize).get_nine_star().get_index() as i64)) {
    Ok((a, b)) => {
      if a != want || b != want {
        log.violate(format!("C17/year-nine-star/{}", key), "year nine star", key.clone(), format!("lunar {} sixty {}", a, b), format!("{}", want));
      }
    }
    Err(msg) => log.violate(format!("C17/year-nine-star/{}", key), "year nine star", key.clone(), format!("panic: {}", msg), format!("{}", want)),
  }
  log.count("year.year_stars", 1);
  if y < 0 {
    return;
  }
  let yb = year_pillar(y) % 12;
  let start = match yb % 3 {
    0 => 7, // 子午卯酉 years: 寅 month = 八
    1 => 4, // 辰戌丑未: 五
    _ => 1, // 寅申巳亥: 二
  };
  for k in 0..12i64 {
    log.ev(1);
    log.count("year.month_stars", 1);
    let want = (start - k).rem_euclid(9);
    let mkey = format!("{}-{:02}", key, k);
    match guard(|| SixtyCycleMonth::from_index(y as isize, k as isize).get_nine_star().get_index() as i64) {
      Ok(g) => {
        if g != want {
          log.violate(format!("C17/month-nine-star/{}", mkey), "SixtyCycleMonth::get_nine_star", mkey.clone(), format!("{}", g), format!("{} (year branch {})", want, yb));
        }
      }
      Err(msg) => log.violate(format!("C17/month-nine-star/{}", mkey), "SixtyCycleMonth::get_nine_star", mkey.clone(), format!("panic: {}", msg), format!("{}", want)),
    }
  }
  // lunar months of a year without a leap month carry the same stars (month pillar = Yin + index)
  if y <= 9999 && lunar_seq().leap[y as usize] == 0 {
    for k in 0..12i64 {
      log.ev(1);
      let want = (start - k).rem_euclid(9);
      let mkey = format!("{}-{:02}", key, k + 1);
      match guard(|| LunarMonth::from_ym(y as isize, (k + 1) as isize).get_nine_star().get_index() as i64) {
        Ok(g) => {
          if g != want {
            log.violate(format!("C17/lunar-month-nine-star/{}", mkey), "LunarMonth::get_nine_star", mkey.clone(), format!("{}", g), format!("{}", want));
          }
        }
        Err(msg) => log.violate(format!("C17/lunar-month-nine-star/{}", mkey), "LunarMonth::get_nine_star", mkey.clone(), format!("panic: {}", msg), format!("{}", want)),
      }
    }
  }
}

pub fn run(cfg: &Cfg) -> (Log, Meta) {
  crate::util::set_thread_cap(12);
  let mut log = Log::new();
  if let Err(e) = cal::self_test() {
    log.harness_error(&format!("oracle self-test failed: {}", e));
  }
  let t = terms();
  let seq = lunar_seq();
  if !t.errors.is_empty() || !t.monotonic() || !seq.errors.is_empty() {
    log.harness_error("term list / lunar enumeration unusable as an oracle (see C06 / C03)");
    log.ev(1);
    return (log, Meta { rule: "not run".into(), assumptions: vec![], exhaustive: false });
  }
  // anchors of the mansion oracle: 2020-05-05 = 翼 (26), 2023-11-11 = 柳 (23); year star 2024 = 三 (2)
  if (cal().dn(2020, 5, 5) + 11).rem_euclid(28) != 26 || (cal().dn(2023, 11, 11) + 11).rem_euclid(28) != 23 || (1864 - 2024i64).rem_euclid(9) != 2 {
    log.harness_error("mansion / year-star anchor self-test failed");
  }
  let years: Vec<i64> = match cfg.tier {
    Tier::Thorough => (1..=9998).collect(),
    Tier::Quick => day_sample_years(cfg).into_iter().filter(|y| *y <= 9998).collect(),
  };
  log.merge(par_range(years.len(), 1, |i, l| check_year_days(years[i], l)));
  let leap_years: Vec<i64> = match cfg.tier {
    Tier::Thorough => (1..=9998).collect(),
    Tier::Quick => {
      let mut rng = Rng::new(mix(cfg.seed, 0xC17));
      let leaps: Vec<i64> = (30..=9998).filter(|y| seq.leap[*y as usize] > 0 && !(236..=241).contains(y)).collect();
      (0..200).map(|_| *rng.pick(&leaps)).collect()
    }
  };
  log.merge(par_range(leap_years.len(), 4, |i, l| leap_month_days(leap_years[i], l)));
  let nh = cfg.tier.pick(5_000usize, 500_000usize);
  log.merge(par_range(nh, 50, |i, l| {
    let mut rng = Rng::new(mix(cfg.seed, i as u64 ^ 0x1C17));
    let c = cal();
    let n = match i % 5 {
      0 => {
        // around a solstice
        let y = rng.range(30, 9990);
        let tt = terms();
        (if rng.chance(1, 2) { tt.get(y, 12).dn } else { tt.get(y + 1, 0).dn }) + rng.range(-3, 12)
      }
      _ => rng.range(c.dn(30, 1, 1), c.dn(9998, 12, 1)),
    };
    if cal::reform_era_day(n) {
      return;
    }
    l.nt_distinct(n as u64);
    hours_of_day(n, l);
    // the same day, or (every third draw) a Jie day of the year, through an hour that was queried first
    let nv = if i % 3 == 0 {
      let tt = terms();
      let y = c.date(n).0;
      tt.get(y, 2 * rng.range(0, 11) + 1).dn
    } else {
      n
    };
    if !cal::reform_era_day(nv) {
      day_via_hour(nv, cfg.seed, l);
    }
  }));
  log.merge(par_range(10001, 64, |i, l| year_and_month_stars(i as i64 - 1, l)));
  let nhist = cfg.tier.pick(30_000usize, 500_000usize);
  log.merge(par_range(nhist, 100, |i, l| crate::history::day_walk("C17", "a sequence of day-series look-ups on related days on one thread", i, cfg.seed, cal().year_first(2), cal().year_first(9999) - 1, l, history_op)));
  log.floor("history.answers_judged", cfg.tier.pick(250_000, 4_000_000));
  log.floor("day.jie_days_where_the_officer_repeats", cfg.tier.pick(5_000, 100_000));
  log.floor("day.leap_month_days", cfg.tier.pick(3_000, 90_000));
  log.floor("day.nine_star_turning_days", cfg.tier.pick(500, 10_000));
  log.floor("six.leap_month_days", cfg.tier.pick(3_000, 90_000));
  log.floor("hour.double_hours", cfg.tier.pick(40_000, 4_000_000));
  log.floor("via_hour.days_compared", cfg.tier.pick(12_000, 1_200_000));
  log.floor("via_hour.late_zi_hours", cfg.tier.pick(4_000, 400_000));
  log.floor("via_hour.jie_days", cfg.tier.pick(1_000, 100_000));
  log.floor("hour.days_after_the_december_solstice", cfg.tier.pick(100, 10_000));
  log.floor("year.year_stars", 10_001);
  log.floor("year.month_stars", 120_000);
  let meta = Meta {
    rule: format!(
      "day series on every civil date of {} years{}: officer = (day branch - month branch) mod 12, Yellow/Black-path spirit from the month-branch group, mansion = (N+11) mod 28 with +1 per day and luminary = weekday, day nine star from the Jiazi days nearest the solstices, six-day star, phase, minor Ren, each by both routes where two exist, plus officer / spirit / mansion / six-day star read from yesterday's (memo-filled) lunar date stepped by one day; one-step-per-day continuity of the day nine star; every leap-month day of {} lunar years (six-day star with the month's own number, equal to the regular twin); the 12 double-hours (hours 0,1,3..21) of {} seeded days (1/5 within -3..+12 days of a solstice): hour nine star, hour spirit, hour minor Ren by both routes; on the same draws (every third one moved to a Jie day of the year) the day almanac (15 cycle indices by both routes, fetus, gods, recommends, avoids, civil day) of hour.get_lunar_day() taken after a drawn subset of hour-level getters at 23:xx, 00:xx, a random hour and both sides of the Jie instant, against a freshly built day of the same civil date; histories: {} seeded single-thread sequences of 6..16 look-ups of (officer, spirit, mansion, day nine star) through the sexagenary day, the lunar day or the noon hour's lunar day, on related days - {}; year star of every year -1..9999 and month stars of all 12 months of every sexagenary year 0..9999 (covers all 12 x 12 year-branch/month pairs), lunar-month stars in years without a leap month. Non-trivial = Jie days, nine-star turning days, leap-month days, distinct sampled days.",
      years.len(),
      match cfg.tier {
        Tier::Thorough => " (1..9998, exhaustive)",
        Tier::Quick => " (seed mod 20 plus the worst-case eras)",
      },
      leap_years.len(),
      nh,
      nhist,
      crate::history::WALK_TEXT
    ),
    assumptions: vec![
      "rule encodings are the harness' own transcription; mansion anchor from two published almanac days (2020-05-05 Yi, 2023-11-11 Liu)".into(),
      "the 23:00 slot of the hourly series is not judged (the two routes use different day branches there and the solstice-day test is by civil day)".into(),
      "term days from the library (C06)".into(),
    ],
    exhaustive: cfg.tier == Tier::Thorough,
  };
  (log, meta)
}
