//! C04 — month numbers and the leap month follow the no-major-term rule.
use crate::api::fmt_lym;
use crate::log::Log;
use crate::model::lunar_seq::lunar_seq;
use crate::model::terms::terms;
use crate::util::{guard, par_range};
use crate::{Cfg, Meta};
use std::collections::BTreeMap;
use tyme4rs::tyme::lunar::LunarYear;

fn in_domain(y: i64) -> bool {
  (27..=9998).contains(&y) && !(238..=240).contains(&y)
}

pub fn run(cfg: &Cfg) -> (Log, Meta) {
  let mut log = Log::new();
  let seq = lunar_seq();
  let t = terms();
  for e in seq.errors.iter().chain(t.errors.iter()) {
    log.harness_error(&format!("enumeration: {}", e));
  }
  if !seq.errors.is_empty() || !t.errors.is_empty() {
    log.ev(1);
    return (log, Meta { rule: "not run".into(), assumptions: vec![], exhaustive: false });
  }
  // calendar-making days of the 12 major terms (even indices) of every year
  let mut zq: Vec<(i64, i64)> = vec![]; // (day number, term index)
  for term in t.v.iter() {
    if term.i % 2 == 0 {
      zq.push((term.cursory.round() as i64 + 2451545, term.i));
    }
  }
  zq.sort();
  let ms = &seq.months;
  // major terms inside each lunation [first, next first)
  let mut has: Vec<Vec<i64>> = vec![vec![]; ms.len()];
  let mut zi = 0;
  for (k, m) in ms.iter().enumerate() {
    while zi < zq.len() && zq[zi].0 < m.first {
      zi += 1;
    }
    let end = if k + 1 < ms.len() { ms[k + 1].first } else { m.first + m.days };
    let mut j = zi;
    while j < zq.len() && zq[j].0 < end {
      has[k].push(zq[j].1);
      j += 1;
    }
  }
  let sol: Vec<usize> = (0..ms.len()).filter(|&k| has[k].contains(&0)).collect();
  log.count("lunations.containing_the_winter_solstice", sol.len() as u64);
  let mut derived_leap: BTreeMap<i64, i64> = BTreeMap::new();
  let mut derived_years_full: BTreeMap<i64, i64> = BTreeMap::new(); // year -> months labelled by the rule
  for w in sol.windows(2) {
    let (a, b) = (w[0], w[1]);
    let cnt = b - a;
    let ya = ms[a].y;
    // the window covers month 11 of ya up to month 10 of ya+1
    if !(in_domain(ya) && in_domain(ya + 1)) {
      log.count("windows.outside_the_stated_domain", 1);
      continue;
    }
    log.count("windows.checked", 1);
    log.ev(1);
    let wkey = format!("{:04}", ya);
    if cnt != 12 && cnt != 13 {
      log.violate(format!("C04/window/{}", wkey), "lunations between winter-solstice months", wkey.clone(), format!("{}", cnt), "12 or 13".into());
      continue;
    }
    if cnt == 13 {
      log.count("windows.with_13_lunations", 1);
      log.nt(1);
    }
    let mut num = 11i64;
    let mut yr = ya;
    let mut leap_used = false;
    for k in a..b {
      let want = if k == a {
        (yr, 11)
      } else if cnt == 13 && !leap_used && has[k].is_empty() {
        leap_used = true;
        derived_leap.insert(yr, num);
        (yr, -num)
      } else {
        num += 1;
        if num > 12 {
          num = 1;
          yr += 1;
        }
        (yr, num)
      };
      *derived_years_full.entry(want.0).or_insert(0) += 1;
      log.ev(1);
      log.count("lunations.checked", 1);
      if has[k].is_empty() {
        log.count("lunations.without_a_major_term", 1);
      }
      if has[k].len() >= 2 {
        log.count("lunations.with_two_major_terms", 1);
        log.nt(1);
      }
      let got = (ms[k].y, ms[k].m);
      if got != want {
        log.violate(
          format!("C04/label/{}", fmt_lym(ms[k].y, ms[k].m)),
          "month label vs no-major-term rule",
          format!("lunation starting on day {} with major terms {:?}", ms[k].first, has[k]),
          format!("labelled {}", fmt_lym(got.0, got.1)),
          format!("{} ({} lunations between the solstice months)", fmt_lym(want.0, want.1), cnt),
        );
      }
      log.sample(|| format!("lunation {} starts day {}, major terms inside {:?}, rule says {}", fmt_lym(got.0, got.1), ms[k].first, has[k], fmt_lym(want.0, want.1)));
    }
    if cnt == 13 && !leap_used {
      log.violate(format!("C04/window-no-leap/{}", wkey), "13 lunations but every one contains a major term", wkey.clone(), "no candidate".into(), "one lunation without a major term".into());
    }
  }
  // the stored leap-month table and month counts agree with the rule for every year fully covered
  for y in 28..=9997i64 {
    if !in_domain(y) || !in_domain(y - 1) || !in_domain(y + 1) {
      continue;
    }
    log.ev(1);
    let want = derived_leap.get(&y).cloned().unwrap_or(0);
    let r = guard(|| {
      let ly = LunarYear::from_year(y as isize);
      (ly.get_leap_month() as i64, ly.get_month_count() as i64)
    });
    match r {
      Ok((lm, mc)) => {
        if lm != want {
          log.violate(format!("C04/leap-table/{:04}", y), "LunarYear::get_leap_month", format!("{}", y), format!("{}", lm), format!("{} (by the no-major-term rule)", want));
        }
        if mc != if want > 0 { 13 } else { 12 } {
          log.violate(format!("C04/month-count/{:04}", y), "LunarYear::get_month_count", format!("{}", y), format!("{}", mc), format!("{}", if want > 0 { 13 } else { 12 }));
        }
        if want > 0 {
          log.count("years.leap_years_checked", 1);
        } else {
          log.count("years.common_years_checked", 1);
        }
      }
      Err(msg) => log.violate(format!("C04/leap-table/{:04}", y), "LunarYear", format!("{}", y), format!("panic: {}", msg), "no panic".into()),
    }
  }
  let nh = cfg.tier.pick(30_000usize, 2_000_000usize);
  log.merge(par_range(nh, 100, |i, l| crate::monitor::month_history::month_history("C04", i, cfg.seed ^ 0x04, 27, 9998, l)));
  log.floor("history.answers_judged", cfg.tier.pick(200_000, 4_000_000));
  log.floor("windows.checked", 9_000);
  log.floor("windows.with_13_lunations", 2_000);
  log.floor("lunations.checked", 100_000);
  log.floor("lunations.without_a_major_term", 2_000);
  log.floor("years.leap_years_checked", 2_000);
  let meta = Meta {
    rule: format!("exhaustive over the stated domain: every winter-solstice-to-winter-solstice window whose two lunar years lie in 27..9998 and outside 238..240; each lunation of the window is labelled by the rule (solstice month = 11; with 13 lunations the first one holding no major term is the leap month and repeats the previous number) from the library's own new-moon days and calendar-making major-term days, and compared with the library's label; leap month and month count of every fully covered year compared as well. Non-trivial = 13-lunation windows and lunations holding two major terms (counted). Windows outside the domain are counted, not judged. Then {} {} (the enumeration being the one the rule has just been applied to).", nh, crate::monitor::month_history::RULE_TEXT),
    assumptions: vec!["inputs of the rule are the library's own new-moon days (LunarMonth::get_first_julian_day) and SolarTerm::get_cursory_julian_day; their astronomy is C05's subject".into()],
    exhaustive: true,
  };
  (log, meta)
}
