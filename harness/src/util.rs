//! Small self-contained helpers: PRNG, JSON escaping, panic guard, parallel runner.
use crate::log::Log;
use std::panic::{self, AssertUnwindSafe};

/// xorshift64* — deterministic, seedable, no dependency.
#[derive(Clone)]
pub struct Rng(pub u64);

impl Rng {
  pub fn new(seed: u64) -> Self {
    // splitmix the seed so that small seeds give unrelated streams
    let mut z = seed.wrapping_add(0x9E3779B97F4A7C15);
    z = (z ^ (z >> 30)).wrapping_mul(0xBF58476D1CE4E5B9);
    z = (z ^ (z >> 27)).wrapping_mul(0x94D049BB133111EB);
    z ^= z >> 31;
    Rng(if z == 0 { 0x2545F4914F6CDD1D } else { z })
  }
  pub fn fork(&self, salt: u64) -> Rng {
    Rng::new(self.0 ^ salt.wrapping_mul(0xD6E8FEB86659FD93))
  }
  pub fn next(&mut self) -> u64 {
    let mut x = self.0;
    x ^= x >> 12;
    x ^= x << 25;
    x ^= x >> 27;
    self.0 = x;
    x.wrapping_mul(0x2545F4914F6CDD1D)
  }
  /// inclusive range
  pub fn range(&mut self, lo: i64, hi: i64) -> i64 {
    debug_assert!(lo <= hi);
    let span = (hi - lo) as u64 + 1;
    lo + (self.next() % span) as i64
  }
  pub fn below(&mut self, n: usize) -> usize {
    (self.next() % n as u64) as usize
  }
  pub fn chance(&mut self, num: u64, den: u64) -> bool {
    self.next() % den < num
  }
  pub fn pick<'a, T>(&mut self, v: &'a [T]) -> &'a T {
    &v[self.below(v.len())]
  }
  pub fn shuffle<T>(&mut self, v: &mut [T]) {
    for i in (1..v.len()).rev() {
      let j = self.below(i + 1);
      v.swap(i, j);
    }
  }
}

pub fn json_str(s: &str) -> String {
  let mut o = String::with_capacity(s.len() + 2);
  o.push('"');
  for c in s.chars() {
    match c {
      '"' => o.push_str("\\\""),
      '\\' => o.push_str("\\\\"),
      '\n' => o.push_str("\\n"),
      '\r' => o.push_str("\\r"),
      '\t' => o.push_str("\\t"),
      c if (c as u32) < 0x20 => o.push_str(&format!("\\u{:04x}", c as u32)),
      c => o.push(c),
    }
  }
  o.push('"');
  o
}

thread_local! {
  /// source location of the last panic on this thread (set by the hook installed in `silence_panics`)
  static LAST_PANIC_AT: std::cell::RefCell<String> = std::cell::RefCell::new(String::new());
}

/// marker put in front of the message of a panic that is the harness' own arithmetic / indexing slip
pub const HARNESS_PANIC: &str = "HARNESS-PANIC";

/// Run `f`, turning a panic of the library into `Err(message)`.  An index-out-of-bounds, slice-range or
/// arithmetic-overflow panic whose location is a source file of the harness itself (crate-relative `src/...`;
/// the library's files are absolute paths under /repo, the standard library's under /rustc) is a bug of the
/// workload, not an observation: its message is marked and `Log::violate` turns it into a harness error
/// (INCONCLUSIVE) instead of a violation.
pub fn guard<R>(f: impl FnOnce() -> R) -> Result<R, String> {
  match panic::catch_unwind(AssertUnwindSafe(f)) {
    Ok(r) => Ok(r),
    Err(e) => {
      let msg = if let Some(s) = e.downcast_ref::<&str>() {
        s.to_string()
      } else if let Some(s) = e.downcast_ref::<String>() {
        s.clone()
      } else {
        "panic".to_string()
      };
      let at = LAST_PANIC_AT.with(|c| c.borrow().clone());
      let own_kind = msg.starts_with("index out of bounds") || msg.starts_with("attempt to ") || msg.starts_with("range ") || msg.starts_with("slice index") || msg.contains("out of range for slice");
      if at.starts_with("src/") && own_kind {
        Err(format!("{} at {}: {}", HARNESS_PANIC, at, msg))
      } else {
        Err(msg)
      }
    }
  }
}

pub fn silence_panics() {
  panic::set_hook(Box::new(|info| {
    let at = info.location().map(|l| format!("{}:{}", l.file(), l.line())).unwrap_or_default();
    LAST_PANIC_AT.with(|c| *c.borrow_mut() = at);
  }));
}

static THREAD_CAP: std::sync::atomic::AtomicUsize = std::sync::atomic::AtomicUsize::new(16);

/// Monitors whose workload hammers the library's single cache mutex scale badly beyond ~6 threads
/// (measured: 4..16 threads give the same wall time, 16 burn a minute of futex time).
pub fn set_thread_cap(n: usize) {
  THREAD_CAP.store(n.max(1), std::sync::atomic::Ordering::Relaxed);
}

pub fn threads() -> usize {
  let cap = THREAD_CAP.load(std::sync::atomic::Ordering::Relaxed);
  std::env::var("VERIF_THREADS").ok().and_then(|s| s.parse().ok()).unwrap_or_else(|| std::thread::available_parallelism().map(|n| n.get()).unwrap_or(8).min(16)).min(cap)
}

/// Deterministic parallel map over `0..n`: chunk c is handled by worker c % T, each worker owns a
/// private Log; logs are merged in worker order.  `f(index, log)`.
pub fn par_range<F>(n: usize, chunk: usize, f: F) -> Log
where
  F: Fn(usize, &mut Log) + Sync,
{
  let t = threads().max(1);
  let chunk = chunk.max(1);
  let nchunks = (n + chunk - 1) / chunk;
  let mut logs: Vec<Log> = Vec::new();
  std::thread::scope(|s| {
    let mut hs = Vec::new();
    for w in 0..t {
      let f = &f;
      hs.push(s.spawn(move || {
        let mut log = Log::new();
        let mut c = w;
        while c < nchunks {
          let lo = c * chunk;
          let hi = (lo + chunk).min(n);
          for i in lo..hi {
            f(i, &mut log);
          }
          c += t;
        }
        log
      }));
    }
    for h in hs {
      match h.join() {
        Ok(l) => logs.push(l),
        Err(_) => {
          let mut l = Log::new();
          l.harness_error("worker thread panicked outside a guarded library call");
          logs.push(l);
        }
      }
    }
  });
  let mut out = Log::new();
  for l in logs {
    out.merge(l);
  }
  out
}

pub fn par_items<T: Sync, F>(items: &[T], chunk: usize, f: F) -> Log
where
  F: Fn(&T, &mut Log) + Sync,
{
  par_range(items.len(), chunk, |i, log| f(&items[i], log))
}

pub fn fnv(s: &str) -> u64 {
  let mut h: u64 = 0xcbf29ce484222325;
  for b in s.as_bytes() {
    h ^= *b as u64;
    h = h.wrapping_mul(0x100000001b3);
  }
  h
}

pub fn mix(a: u64, b: u64) -> u64 {
  let mut z = a ^ b.wrapping_mul(0x9E3779B97F4A7C15);
  z = (z ^ (z >> 32)).wrapping_mul(0xD6E8FEB86659FD93);
  z ^ (z >> 29)
}
