//! Independent low-precision theories used only by C05: Meeus, "Astronomical Algorithms" ch. 25
//! (apparent solar longitude, low accuracy, ~0.01 deg) and a 40-term truncation of ch. 47 (lunar
//! longitude) with the three additive terms and a 4-term nutation; Delta-T from the Espenak-Meeus
//! polynomial expressions.  No coefficient is shared with the library's tables.
const D2R: f64 = std::f64::consts::PI / 180.0;

pub fn norm360(x: f64) -> f64 {
  x.rem_euclid(360.0)
}

/// signed difference a - b in (-180, 180]
pub fn diff_deg(a: f64, b: f64) -> f64 {
  let mut e = (a - b).rem_euclid(360.0);
  if e > 180.0 {
    e -= 360.0;
  }
  e
}

/// apparent geocentric solar longitude in degrees; jde = Julian Ephemeris Day (TT)
pub fn sun_app_lon(jde: f64) -> f64 {
  let t = (jde - 2451545.0) / 36525.0;
  let l0 = 280.46646 + 36000.76983 * t + 0.0003032 * t * t;
  let m = (357.52911 + 35999.05029 * t - 0.0001537 * t * t) * D2R;
  let c = (1.914602 - 0.004817 * t - 0.000014 * t * t) * m.sin() + (0.019993 - 0.000101 * t) * (2.0 * m).sin() + 0.000289 * (3.0 * m).sin();
  let om = (125.04 - 1934.136 * t) * D2R;
  norm360(l0 + c - 0.00569 - 0.00478 * om.sin())
}

/// apparent geocentric lunar longitude in degrees (truncated series)
pub fn moon_lon(jde: f64) -> f64 {
  let t = (jde - 2451545.0) / 36525.0;
  let lp = 218.3164477 + 481267.88123421 * t - 0.0015786 * t * t + t * t * t / 538841.0 - t * t * t * t / 65194000.0;
  let d = (297.8501921 + 445267.1114034 * t - 0.0018819 * t * t + t * t * t / 545868.0 - t * t * t * t / 113065000.0) * D2R;
  let m = (357.5291092 + 35999.0502909 * t - 0.0001536 * t * t + t * t * t / 24490000.0) * D2R;
  let mp = (134.9633964 + 477198.8675055 * t + 0.0087414 * t * t + t * t * t / 69699.0 - t * t * t * t / 14712000.0) * D2R;
  let f = (93.2720950 + 483202.0175233 * t - 0.0036539 * t * t - t * t * t / 3526000.0 + t * t * t * t / 863310000.0) * D2R;
  let e = 1.0 - 0.002516 * t - 0.0000074 * t * t;
  let a1 = (119.75 + 131.849 * t) * D2R;
  let a2 = (53.09 + 479264.290 * t) * D2R;
  // (D, M, M', F, coefficient in 1e-6 degrees)
  const TERMS: [(f64, f64, f64, f64, f64); 40] = [
    (0., 0., 1., 0., 6288774.), (2., 0., -1., 0., 1274027.), (2., 0., 0., 0., 658314.), (0., 0., 2., 0., 213618.), (0., 1., 0., 0., -185116.), (0., 0., 0., 2., -114332.),
    (2., 0., -2., 0., 58793.), (2., -1., -1., 0., 57066.), (2., 0., 1., 0., 53322.), (2., -1., 0., 0., 45758.), (0., 1., -1., 0., -40923.), (1., 0., 0., 0., -34720.),
    (0., 1., 1., 0., -30383.), (2., 0., 0., -2., 15327.), (0., 0., 1., 2., -12528.), (0., 0., 1., -2., 10980.), (4., 0., -1., 0., 10675.), (0., 0., 3., 0., 10034.),
    (4., 0., -2., 0., 8548.), (2., 1., -1., 0., -7888.), (2., 1., 0., 0., -6766.), (1., 0., -1., 0., -5163.), (1., 1., 0., 0., 4987.), (2., -1., 1., 0., 4036.),
    (2., 0., 2., 0., 3994.), (4., 0., 0., 0., 3861.), (2., 0., -3., 0., 3665.), (0., 1., -2., 0., -2689.), (2., 0., -1., 2., -2602.), (2., -1., -2., 0., 2390.),
    (1., 0., 1., 0., -2348.), (2., -2., 0., 0., 2236.), (0., 1., 2., 0., -2120.), (0., 2., 0., 0., -2069.), (2., -2., -1., 0., 2048.), (2., 0., 1., -2., -1773.),
    (2., 0., 0., 2., -1595.), (4., -1., -1., 0., 1215.), (0., 0., 2., 2., -1110.), (3., 0., -1., 0., -892.),
  ];
  let mut s = 0.0;
  for (cd, cm, cmp, cf, co) in TERMS.iter() {
    let arg = cd * d + cm * m + cmp * mp + cf * f;
    let ef = if cm.abs() == 1.0 {
      e
    } else if cm.abs() == 2.0 {
      e * e
    } else {
      1.0
    };
    s += co * ef * arg.sin();
  }
  s += 3958.0 * a1.sin() + 1962.0 * (lp * D2R - f).sin() + 318.0 * a2.sin();
  let om = (125.04452 - 1934.136261 * t) * D2R;
  let ls = (280.4665 + 36000.7698 * t) * D2R;
  let lm = (218.3165 + 481267.8813 * t) * D2R;
  let dpsi = (-17.20 * om.sin() - 1.32 * (2.0 * ls).sin() - 0.23 * (2.0 * lm).sin() + 0.21 * (2.0 * om).sin()) / 3600.0;
  norm360(lp + s / 1e6 + dpsi)
}

/// elongation Moon - Sun in (-180, 180]
pub fn elongation(jde: f64) -> f64 {
  diff_deg(moon_lon(jde), sun_app_lon(jde))
}

/// Delta-T in seconds for decimal year y, Espenak & Meeus polynomial expressions (1900..2150 used)
pub fn delta_t(y: f64) -> f64 {
  if y < 1900.0 {
    let t = y - 1860.0;
    7.62 + 0.5737 * t - 0.251754 * t * t + 0.01680668 * t * t * t - 0.0004473624 * t * t * t * t + t * t * t * t * t / 233174.0
  } else if y < 1920.0 {
    let t = y - 1900.0;
    -2.79 + 1.494119 * t - 0.0598939 * t * t + 0.0061966 * t * t * t - 0.000197 * t * t * t * t
  } else if y < 1941.0 {
    let t = y - 1920.0;
    21.20 + 0.84493 * t - 0.076100 * t * t + 0.0020936 * t * t * t
  } else if y < 1961.0 {
    let t = y - 1950.0;
    29.07 + 0.407 * t - t * t / 233.0 + t * t * t / 2547.0
  } else if y < 1986.0 {
    let t = y - 1975.0;
    45.45 + 1.067 * t - t * t / 260.0 - t * t * t / 718.0
  } else if y < 2005.0 {
    let t = y - 2000.0;
    63.86 + 0.3345 * t - 0.060374 * t * t + 0.0017275 * t * t * t + 0.000651814 * t * t * t * t + 0.00002373599 * t * t * t * t * t
  } else if y < 2050.0 {
    let t = y - 2000.0;
    62.92 + 0.32217 * t + 0.005589 * t * t
  } else {
    let u = (y - 1820.0) / 100.0;
    -20.0 + 32.0 * u * u - 0.5628 * (2150.0 - y)
  }
}

/// self-test against worked examples: Meeus ex. 25.a (1992-10-13 0h TD: apparent lon 199.90895 deg),
/// ex. 47.a (1992-04-12 0h TD: apparent lon 133.167265 deg), Delta-T(2000) ~ 63.8 s
pub fn self_test() -> Result<(), String> {
  let s = sun_app_lon(2448908.5);
  if (s - 199.90895).abs() > 0.003 {
    return Err(format!("sun_app_lon(2448908.5) = {}", s));
  }
  let m = moon_lon(2448724.5);
  if (m - 133.167265).abs() > 0.01 {
    return Err(format!("moon_lon(2448724.5) = {}", m));
  }
  if (delta_t(2000.0) - 63.86).abs() > 0.5 || (delta_t(1950.0) - 29.07).abs() > 0.5 || (delta_t(2100.0) - 202.7).abs() > 3.0 {
    return Err(format!("delta_t self-test: {} {} {}", delta_t(2000.0), delta_t(1950.0), delta_t(2100.0)));
  }
  Ok(())
}
