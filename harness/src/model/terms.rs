//! The library's solar-term instants for years 0..=10000 as OBSERVED through
//! `SolarTerm::from_index(y, i).get_julian_day()`, turned into absolute seconds / civil day numbers
//! with the library's convention (instant rounded to the nearest second, see DESIGN section 3).
//! Whether these instants are astronomically right is C05's subject; C06/C08/C13/C15/C16/C17/C20
//! use this list as the oracle for "which term governs this day / instant".
use crate::api::abs_sec_of;
use crate::util::{guard, par_range};
use std::sync::{Mutex, OnceLock};
use tyme4rs::tyme::solar::SolarTerm;

#[derive(Clone, Copy, Debug)]
pub struct Term {
  pub y: i64,
  pub i: i64,
  pub jd: f64,
  pub cursory: f64,
  /// absolute second (day number * 86400 + second of day), own rounding of jd
  pub sec: i64,
  /// civil day number of the term day (library convention)
  pub dn: i64,
  /// the library's own rounding disagrees with ours (instant within float noise of xx.5 s): second-level probes skip it
  pub ambiguous: bool,
}

pub struct Terms {
  pub v: Vec<Term>,
  pub errors: Vec<String>,
  pub ambiguous: usize,
}

pub const Y0: i64 = 0;
pub const Y1: i64 = 10000;

static TERMS: OnceLock<Terms> = OnceLock::new();

pub fn own_round(jd: f64) -> i64 {
  let d = (jd + 0.5).floor();
  let f = jd + 0.5 - d;
  (d as i64) * 86400 + (f * 86400.0).round() as i64
}

pub fn terms() -> &'static Terms {
  TERMS.get_or_init(|| {
    let n = ((Y1 - Y0 + 1) * 24) as usize;
    let slots: Vec<Mutex<Option<Result<Term, String>>>> = (0..n).map(|_| Mutex::new(None)).collect();
    let _ = par_range(n, 240, |k, _| {
      let y = Y0 + (k / 24) as i64;
      let i = (k % 24) as i64;
      let r = guard(|| {
        let t = SolarTerm::from_index(y as isize, i as isize);
        let jd = t.get_julian_day().get_day();
        let cursory = t.get_cursory_julian_day();
        let ty = t.get_year() as i64;
        let ti = t.get_index() as i64;
        (jd, cursory, ty, ti)
      });
      let out = match r {
        Err(e) => Err(format!("SolarTerm::from_index({}, {}) panicked: {}", y, i, e)),
        Ok((jd, cursory, ty, ti)) => {
          if ty != y || ti != i {
            Err(format!("SolarTerm::from_index({}, {}) reports (year {}, index {})", y, i, ty, ti))
          } else {
            let sec = own_round(jd);
            // the library's own second, where it can represent the instant (years 1..9999)
            let lib = guard(|| abs_sec_of(&SolarTerm::from_index(y as isize, i as isize).get_julian_day().get_solar_time())).ok().flatten();
            let ambiguous = matches!(lib, Some(l) if l != sec);
            Ok(Term { y, i, jd, cursory, sec, dn: sec.div_euclid(86400), ambiguous })
          }
        }
      };
      *slots[k].lock().unwrap() = Some(out);
    });
    let mut v = Vec::with_capacity(n);
    let mut errors = vec![];
    let mut amb = 0;
    for (k, s) in slots.into_iter().enumerate() {
      match s.into_inner().unwrap() {
        Some(Ok(t)) => {
          if t.ambiguous {
            amb += 1;
          }
          v.push(t)
        }
        Some(Err(e)) => {
          errors.push(e);
          // placeholder keeps indices aligned; monitors abort on errors
          v.push(Term { y: Y0 + (k / 24) as i64, i: (k % 24) as i64, jd: f64::NAN, cursory: f64::NAN, sec: i64::MIN, dn: i64::MIN, ambiguous: true });
        }
        None => errors.push(format!("term slot {} not computed", k)),
      }
    }
    Terms { v, errors, ambiguous: amb }
  })
}

impl Terms {
  #[inline]
  pub fn idx(y: i64, i: i64) -> usize {
    ((y - Y0) * 24 + i) as usize
  }
  #[inline]
  pub fn get(&self, y: i64, i: i64) -> &Term {
    &self.v[Self::idx(y, i)]
  }
  /// position of the latest term whose day is <= n (None if n precedes the first term)
  pub fn governing_day(&self, n: i64) -> Option<usize> {
    let p = self.v.partition_point(|t| t.dn <= n);
    if p == 0 {
      None
    } else {
      Some(p - 1)
    }
  }
  /// position of the latest term whose (rounded) second is <= s
  pub fn governing_sec(&self, s: i64) -> Option<usize> {
    let p = self.v.partition_point(|t| t.sec <= s);
    if p == 0 {
      None
    } else {
      Some(p - 1)
    }
  }
  /// is the list strictly increasing (precondition of the binary searches)?
  pub fn monotonic(&self) -> bool {
    self.v.windows(2).all(|w| w[1].sec > w[0].sec && w[1].dn > w[0].dn)
  }
}
