//! Four pillars of an instant from first principles: year/month by the governing solar term
//! (Lichun / Jie, Five Tigers), day by (N + 49) mod 60 with the roll-over at 23:00, hour by Five Rats.
use crate::model::cal::day_pillar;
use crate::model::ganzhi::{hour_pillar, month_pillar, year_pillar};
use crate::model::terms::{terms, Term};

pub fn year_month_of(g: &Term) -> (i64, i64) {
  if g.i >= 3 {
    (g.y, (g.i - 3) / 2)
  } else if g.i >= 1 {
    (g.y - 1, 11)
  } else {
    (g.y - 1, 10)
  }
}

/// [year, month, day (rolled at 23:00), hour] pillar indices of absolute second `a`;
/// `sect2` = day pillar not rolled at 23:00 (the LunarSect2 convention)
pub fn four_pillars(a: i64, sect2: bool) -> Option<[i64; 4]> {
  let t = terms();
  let g = t.v[t.governing_sec(a)?];
  let (sy, k) = year_month_of(&g);
  let yp = year_pillar(sy);
  let mp = month_pillar(yp % 10, k);
  let n = a.div_euclid(86400);
  let h = a.rem_euclid(86400) / 3600;
  let rolled = if h == 23 { (day_pillar(n) + 1) % 60 } else { day_pillar(n) };
  let hb = ((h + 1) / 2) % 12;
  let hp = hour_pillar(rolled % 10, hb);
  Some([yp, mp, if sect2 { day_pillar(n) } else { rolled }, hp])
}

/// [start, end] (absolute seconds, inclusive) of the double-hour containing `a`; Zi = 23:00..00:59:59
pub fn double_hour_window(a: i64) -> (i64, i64) {
  let n = a.div_euclid(86400);
  let h = a.rem_euclid(86400) / 3600;
  if h == 23 {
    (n * 86400 + 23 * 3600, (n + 1) * 86400 + 3599)
  } else if h == 0 {
    ((n - 1) * 86400 + 23 * 3600, n * 86400 + 3599)
  } else {
    let k = (h + 1) / 2;
    let s = n * 86400 + (2 * k - 1) * 3600;
    (s, s + 7199)
  }
}

/// does [lo, hi] contain a Jie (odd-indexed term) instant, or one whose rounding is ambiguous?
pub fn window_has_jie(lo: i64, hi: i64) -> bool {
  let t = terms();
  let p = t.v.partition_point(|x| x.sec < lo - 1);
  let mut k = p;
  while k < t.v.len() && t.v[k].sec <= hi + 1 {
    if t.v[k].i % 2 == 1 {
      return true;
    }
    k += 1;
  }
  false
}
