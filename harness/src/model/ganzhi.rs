//! Sexagenary arithmetic and the classical rhyme rules, written by name.
pub const STEMS: [&str; 10] = ["甲", "乙", "丙", "丁", "戊", "己", "庚", "辛", "壬", "癸"];
pub const BRANCHES: [&str; 12] = ["子", "丑", "寅", "卯", "辰", "巳", "午", "未", "申", "酉", "戌", "亥"];

pub fn stem_of(name: &str) -> i64 {
  STEMS.iter().position(|s| *s == name).map(|p| p as i64).unwrap_or(-1)
}

pub fn branch_of(name: &str) -> i64 {
  BRANCHES.iter().position(|s| *s == name).map(|p| p as i64).unwrap_or(-1)
}

/// index 0..59 of the pillar with the given stem and branch (same parity required)
pub fn pillar(stem: i64, branch: i64) -> i64 {
  let (s, b) = (stem.rem_euclid(10), branch.rem_euclid(12));
  for c in 0..60 {
    if c % 10 == s && c % 12 == b {
      return c;
    }
  }
  -1
}

pub fn pillar_name(idx: i64) -> String {
  let i = idx.rem_euclid(60);
  format!("{}{}", STEMS[(i % 10) as usize], BRANCHES[(i % 12) as usize])
}

/// Five Tigers: 甲己之年丙作首, 乙庚之岁戊为头, 丙辛之岁寻庚上, 丁壬壬寅顺水流, 若问戊癸何处起 甲寅之上好追求
pub fn yin_month_stem(year_stem: i64) -> i64 {
  let first = match STEMS[year_stem.rem_euclid(10) as usize] {
    "甲" | "己" => "丙",
    "乙" | "庚" => "戊",
    "丙" | "辛" => "庚",
    "丁" | "壬" => "壬",
    _ => "甲",
  };
  stem_of(first)
}

/// month pillar for month number k (0 = Yin month ... 11 = Chou month) of a year with the given stem
pub fn month_pillar(year_stem: i64, k: i64) -> i64 {
  pillar(yin_month_stem(year_stem) + k, 2 + k)
}

/// Five Rats: 甲己还加甲, 乙庚丙作初, 丙辛从戊起, 丁壬庚子居, 戊癸何方发 壬子是真途
pub fn zi_hour_stem(day_stem: i64) -> i64 {
  let first = match STEMS[day_stem.rem_euclid(10) as usize] {
    "甲" | "己" => "甲",
    "乙" | "庚" => "丙",
    "丙" | "辛" => "戊",
    "丁" | "壬" => "庚",
    _ => "壬",
  };
  stem_of(first)
}

pub fn hour_pillar(day_stem: i64, hour_branch: i64) -> i64 {
  pillar(zi_hour_stem(day_stem) + hour_branch, hour_branch)
}

/// sexagenary year pillar of year number Y (AD 4 = Jiazi)
pub fn year_pillar(y: i64) -> i64 {
  (y - 4).rem_euclid(60)
}
