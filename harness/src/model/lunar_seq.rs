//! The library's lunar months of years 0..=9999 in label order, as OBSERVED through
//! `LunarMonth::from_ym` (labels generated from `LunarYear::get_leap_month`).  Monitors check
//! relations over this observed sequence; nothing here is an independent astronomy.
use crate::api::first_dn;
use crate::log::Log;
use crate::util::{guard, par_range};
use std::sync::OnceLock;
use tyme4rs::tyme::lunar::{LunarMonth, LunarYear};

#[derive(Clone, Copy, Debug)]
pub struct LM {
  pub y: i64,
  pub m: i64, // negative = leap
  pub first: i64,
  pub days: i64,
  pub idx: i64,
}

pub struct LunarSeq {
  pub months: Vec<LM>,
  /// year_start[y] = index of month 1 of lunar year y (y in 0..=9999); year_start[10000] = len
  pub year_start: Vec<usize>,
  pub leap: Vec<i64>,
  pub errors: Vec<String>,
}

static SEQ: OnceLock<LunarSeq> = OnceLock::new();

pub fn labels_of_year(leap: i64) -> Vec<i64> {
  let mut v = Vec::with_capacity(13);
  for m in 1..=12i64 {
    v.push(m);
    if leap == m {
      v.push(-m);
    }
  }
  v
}

pub fn lunar_seq() -> &'static LunarSeq {
  SEQ.get_or_init(|| {
    let per_year: Vec<std::sync::Mutex<(i64, Vec<LM>, Vec<String>)>> = (0..10000).map(|_| std::sync::Mutex::new((0, vec![], vec![]))).collect();
    let _l: Log = par_range(10000, 50, |y, _log| {
      let yy = y as i64;
      let r = guard(|| {
        let leap = LunarYear::from_year(yy as isize).get_leap_month() as i64;
        let mut v = vec![];
        for m in labels_of_year(leap) {
          let lm = LunarMonth::from_ym(yy as isize, m as isize);
          v.push(LM { y: yy, m, first: first_dn(&lm), days: lm.get_day_count() as i64, idx: lm.get_index_in_year() as i64 });
        }
        (leap, v)
      });
      let mut slot = per_year[y].lock().unwrap();
      match r {
        Ok((leap, v)) => {
          slot.0 = leap;
          slot.1 = v;
        }
        Err(e) => slot.2.push(format!("lunar year {}: {}", yy, e)),
      }
    });
    let mut months = Vec::with_capacity(124000);
    let mut year_start = Vec::with_capacity(10001);
    let mut leap = Vec::with_capacity(10000);
    let mut errors = vec![];
    for slot in per_year {
      let (l, v, e) = slot.into_inner().unwrap();
      year_start.push(months.len());
      leap.push(l);
      months.extend(v);
      errors.extend(e);
    }
    year_start.push(months.len());
    LunarSeq { months, year_start, leap, errors }
  })
}

impl LunarSeq {
  pub fn index_of(&self, y: i64, m: i64) -> Option<usize> {
    if y < 0 || y > 9999 {
      return None;
    }
    let s = self.year_start[y as usize];
    let e = self.year_start[y as usize + 1];
    (s..e).find(|&i| self.months[i].m == m)
  }
  pub fn year_slice(&self, y: i64) -> &[LM] {
    &self.months[self.year_start[y as usize]..self.year_start[y as usize + 1]]
  }
}
