//! Independent model of the civil calendar the properties describe: proleptic Julian before
//! 1582-10-05, Gregorian from 1582-10-15, ten dropped days nonexistent, years 1..=9999.
//! Day numbers are assigned by COUNTING from 0001-01-01 = 1721424 (no formula shared with the
//! library); `self_test` cross-checks the counted numbers against two closed-form algorithms.
use std::sync::OnceLock;

pub const BASE: i64 = 1721424; // day number of 0001-01-01 (Julian calendar), noon-based JDN
pub const TOTAL_DAYS: usize = 3_652_061;

pub fn is_leap(y: i64) -> bool {
  if y < 1582 {
    y.rem_euclid(4) == 0
  } else if y == 1582 {
    false
  } else {
    (y % 4 == 0 && y % 100 != 0) || y % 400 == 0
  }
}

/// nominal month length (October 1582 nominally runs to the 31st)
pub fn nominal_mlen(y: i64, m: i64) -> i64 {
  match m {
    1 | 3 | 5 | 7 | 8 | 10 | 12 => 31,
    4 | 6 | 9 | 11 => 30,
    2 => {
      if is_leap(y) {
        29
      } else {
        28
      }
    }
    _ => 0,
  }
}

/// number of existing days of the month
pub fn mdays(y: i64, m: i64) -> i64 {
  if y == 1582 && m == 10 {
    21
  } else {
    nominal_mlen(y, m)
  }
}

pub fn ydays(y: i64) -> i64 {
  if y == 1582 {
    355
  } else if is_leap(y) {
    366
  } else {
    365
  }
}

pub fn exists(y: i64, m: i64, d: i64) -> bool {
  if y < 1 || y > 9999 || m < 1 || m > 12 || d < 1 || d > nominal_mlen(y, m) {
    return false;
  }
  !(y == 1582 && m == 10 && d > 4 && d < 15)
}

pub struct Cal {
  /// dates[n - BASE] = (y, m, d)
  pub dates: Vec<(i16, u8, u8)>,
  /// month_first[(y-1)*12 + (m-1)] = day number of the first existing day of the month
  pub month_first: Vec<i64>,
}

static CAL: OnceLock<Cal> = OnceLock::new();

pub fn cal() -> &'static Cal {
  CAL.get_or_init(|| {
    let mut dates = Vec::with_capacity(TOTAL_DAYS);
    let mut month_first = Vec::with_capacity(9999 * 12);
    let mut n = BASE;
    for y in 1..=9999i64 {
      for m in 1..=12i64 {
        month_first.push(n);
        for d in 1..=31i64 {
          if exists(y, m, d) {
            dates.push((y as i16, m as u8, d as u8));
            n += 1;
          }
        }
      }
    }
    Cal { dates, month_first }
  })
}

pub const FIRST: i64 = BASE;
pub const LAST: i64 = BASE + TOTAL_DAYS as i64 - 1;

impl Cal {
  #[inline]
  pub fn in_range(&self, n: i64) -> bool {
    n >= FIRST && n <= LAST
  }
  #[inline]
  pub fn date(&self, n: i64) -> (i64, i64, i64) {
    let (y, m, d) = self.dates[(n - BASE) as usize];
    (y as i64, m as i64, d as i64)
  }
  /// day number of an existing date
  #[inline]
  pub fn dn(&self, y: i64, m: i64, d: i64) -> i64 {
    let first = self.month_first[((y - 1) * 12 + (m - 1)) as usize];
    if y == 1582 && m == 10 && d >= 15 {
      first + d - 11
    } else {
      first + d - 1
    }
  }
  pub fn year_first(&self, y: i64) -> i64 {
    self.month_first[((y - 1) * 12) as usize]
  }
}

/// Julian-calendar JDN, closed form (truncating divisions)
pub fn jdn_julian(y: i64, m: i64, d: i64) -> i64 {
  367 * y - (7 * (y + 5001 + (m - 9) / 7)) / 4 + (275 * m) / 9 + d + 1729777
}

/// Gregorian-calendar JDN, Fliegel & Van Flandern (truncating divisions)
pub fn jdn_gregorian(y: i64, m: i64, d: i64) -> i64 {
  let a = (m - 14) / 12;
  (1461 * (y + 4800 + a)) / 4 + (367 * (m - 2 - 12 * a)) / 12 - (3 * ((y + 4900 + a) / 100)) / 4 + d - 32075
}

pub fn closed_form(y: i64, m: i64, d: i64) -> i64 {
  if (y, m, d) < (1582, 10, 15) {
    jdn_julian(y, m, d)
  } else {
    jdn_gregorian(y, m, d)
  }
}

/// weekday 0 = Sunday
#[inline]
pub fn weekday(n: i64) -> i64 {
  (n + 1).rem_euclid(7)
}

/// sexagenary day index 0 = Jiazi
#[inline]
pub fn day_pillar(n: i64) -> i64 {
  (n + 49).rem_euclid(60)
}

/// Oracle self-test: counted day numbers == closed forms for every date; known anchors.
pub fn self_test() -> Result<(), String> {
  let c = cal();
  if c.dates.len() != TOTAL_DAYS {
    return Err(format!("calendar model has {} days, expected {}", c.dates.len(), TOTAL_DAYS));
  }
  for (i, &(y, m, d)) in c.dates.iter().enumerate() {
    let n = BASE + i as i64;
    let cf = closed_form(y as i64, m as i64, d as i64);
    if cf != n {
      return Err(format!("calendar model self-test: {}-{}-{} counted {} closed-form {}", y, m, d, n, cf));
    }
    if c.dn(y as i64, m as i64, d as i64) != n {
      return Err(format!("calendar model self-test: dn({}-{}-{}) != {}", y, m, d, n));
    }
  }
  // anchors: 2000-01-01 = JDN 2451545 (Saturday), 1582-10-04 -> 1582-10-15 adjacent, 1970-01-01 Thursday
  if c.dn(2000, 1, 1) != 2451545 || weekday(2451545) != 6 {
    return Err("anchor 2000-01-01".into());
  }
  if c.dn(1582, 10, 15) != c.dn(1582, 10, 4) + 1 || c.dn(1582, 10, 15) != 2299161 {
    return Err("anchor 1582-10-15".into());
  }
  if weekday(c.dn(1970, 1, 1)) != 4 {
    return Err("anchor 1970-01-01".into());
  }
  // 2000-01-01 was a Wuwu day (index 54); 1949-10-01 was Jiazi (0)
  if day_pillar(c.dn(2000, 1, 1)) != 54 || day_pillar(c.dn(1949, 10, 1)) != 0 {
    return Err("anchor day pillar".into());
  }
  Ok(())
}

pub fn fmt_date(y: i64, m: i64, d: i64) -> String {
  format!("{:04}-{:02}-{:02}", y, m, d)
}

pub fn fmt_dn(n: i64) -> String {
  let (y, m, d) = cal().date(n);
  fmt_date(y, m, d)
}

/// civil days on which the solar->lunar conversion is a listed finding of C02 (reform-era month
/// labelling); workloads of properties that merely *use* the lunar date do not draw them
pub fn reform_era_day(n: i64) -> bool {
  let c = cal();
  let r = |a: (i64, i64, i64), b: (i64, i64, i64)| n >= c.dn(a.0, a.1, a.2) && n <= c.dn(b.0, b.1, b.2);
  r((9, 1, 1), (9, 1, 14)) || r((24, 1, 1), (24, 2, 28)) || r((25, 1, 1), (25, 2, 16)) || r((240, 1, 1), (240, 2, 9))
}

/// a reform-era day within the 32 days up to and including n: day-level answers that start from the
/// month's Jie day (the inverse eight-character search) inherit the wrong pillar of that day
pub fn reform_era_near(n: i64) -> bool {
  (0..=32).any(|k| n - k >= FIRST && reform_era_day(n - k))
}
