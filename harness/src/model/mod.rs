pub mod astro;
pub mod cal;
pub mod ganzhi;
pub mod lunar_seq;
pub mod pillars;
pub mod terms;
