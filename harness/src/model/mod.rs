pub mod cal;
