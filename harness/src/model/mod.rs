pub mod cal;
pub mod lunar_seq;
