//! Event log of a check: counters, samples, violations (classified against KNOWN_FINDINGS.txt at
//! record time), harness errors and observation floors.
use std::collections::{BTreeMap, HashSet};
use std::sync::OnceLock;

#[derive(Clone, Debug)]
pub struct KnownLine {
  pub property: String,
  pub prefix: String, // "Cnn/monitor/"
  pub lo: String,
  pub hi: String,
  pub what: String,
  pub raw_key: String,
}

pub static KNOWN: OnceLock<Vec<KnownLine>> = OnceLock::new();

/// side channel for the time-budget guard in main: unlisted violations seen so far by any worker
pub static GLOBAL_UNKNOWN: std::sync::atomic::AtomicU64 = std::sync::atomic::AtomicU64::new(0);
pub static GLOBAL_FIRST: std::sync::Mutex<Vec<Violation>> = std::sync::Mutex::new(Vec::new());

pub fn parse_known(text: &str) -> Result<Vec<KnownLine>, String> {
  let mut out = Vec::new();
  for (ln, line) in text.lines().enumerate() {
    let line = line.trim();
    if line.is_empty() || line.starts_with('#') || line.starts_with("fixed:") {
      continue;
    }
    let rest = line.strip_prefix("known:").ok_or_else(|| format!("KNOWN_FINDINGS.txt line {}: expected 'known:' or 'fixed:'", ln + 1))?.trim();
    let mut it = rest.splitn(3, char::is_whitespace);
    let p = it.next().unwrap_or("");
    let k = it.next().unwrap_or("");
    let what = it.next().unwrap_or("").trim().to_string();
    let property = p.strip_prefix("property=").ok_or_else(|| format!("line {}: missing property=", ln + 1))?.to_string();
    let key = k.strip_prefix("key=").ok_or_else(|| format!("line {}: missing key=", ln + 1))?.to_string();
    let cut = key.rfind('/').ok_or_else(|| format!("line {}: key without '/'", ln + 1))?;
    let prefix = key[..cut + 1].to_string();
    let tail = &key[cut + 1..];
    let (lo, hi) = match tail.find("..") {
      Some(i) => (tail[..i].to_string(), tail[i + 2..].to_string()),
      None => (tail.to_string(), tail.to_string()),
    };
    if !prefix.starts_with(&format!("{}/", property)) {
      return Err(format!("line {}: key {} does not belong to property {}", ln + 1, key, property));
    }
    out.push(KnownLine { property, prefix, lo, hi, what, raw_key: key });
  }
  Ok(out)
}

pub fn known_index(sig: &str) -> Option<usize> {
  let known = KNOWN.get()?;
  let cut = sig.rfind('/')?;
  let prefix = &sig[..cut + 1];
  let tail = &sig[cut + 1..];
  for (i, k) in known.iter().enumerate() {
    if k.prefix == prefix && k.lo.as_str() <= tail && tail <= k.hi.as_str() {
      return Some(i);
    }
  }
  None
}

#[derive(Clone, Debug)]
pub struct Violation {
  pub sig: String,
  pub op: String,
  pub input: String,
  pub observed: String,
  pub expected: String,
}

const STORE_CAP: usize = 400;

pub struct Log {
  pub evals: u64,
  pub nontrivial: u64,
  pub distinct: HashSet<u64>,
  pub counters: BTreeMap<&'static str, u64>,
  pub samples: Vec<String>,
  sample_calls: u64,
  pub unknown: Vec<Violation>,
  pub unknown_total: u64,
  pub known_seen: BTreeMap<usize, (u64, Option<Violation>)>,
  pub errors: Vec<String>,
  pub floors: Vec<(&'static str, u64)>,
  pub notes: Vec<String>,
}

impl Log {
  pub fn new() -> Self {
    Log {
      evals: 0,
      nontrivial: 0,
      distinct: HashSet::new(),
      counters: BTreeMap::new(),
      samples: Vec::new(),
      sample_calls: 0,
      unknown: Vec::new(),
      unknown_total: 0,
      known_seen: BTreeMap::new(),
      errors: Vec::new(),
      floors: Vec::new(),
      notes: Vec::new(),
    }
  }

  #[inline]
  pub fn ev(&mut self, n: u64) {
    self.evals += n;
  }

  #[inline]
  pub fn nt(&mut self, n: u64) {
    self.nontrivial += n;
  }

  /// count a distinct non-trivial case identified by a hash (used by random workloads)
  #[inline]
  pub fn nt_distinct(&mut self, h: u64) {
    self.distinct.insert(h);
  }

  #[inline]
  pub fn count(&mut self, key: &'static str, n: u64) {
    *self.counters.entry(key).or_insert(0) += n;
  }

  pub fn get(&self, key: &str) -> u64 {
    self.counters.iter().find(|(k, _)| **k == key).map(|(_, v)| *v).unwrap_or(0)
  }

  /// keep a thin, deterministic selection of the events as samples (1st, 2nd, 10th, 100th, ...)
  #[inline]
  pub fn sample(&mut self, f: impl FnOnce() -> String) {
    self.sample_calls += 1;
    let c = self.sample_calls;
    if c <= 2 || c == 10 || c == 100 || c == 1_000 || c == 10_000 || c == 100_000 || c == 1_000_000 {
      if self.samples.len() < 24 {
        self.samples.push(f());
      }
    }
  }

  pub fn violate(&mut self, sig: String, op: &str, input: String, observed: String, expected: String) {
    if observed.contains(crate::util::HARNESS_PANIC) {
      // the workload itself slipped (see util::guard): not an observation of the library
      self.harness_error(&format!("{} ({} on {})", observed, sig, input));
      return;
    }
    let v = Violation { sig, op: op.to_string(), input, observed, expected };
    match known_index(&v.sig) {
      Some(i) => {
        let e = self.known_seen.entry(i).or_insert((0, None));
        e.0 += 1;
        if e.1.is_none() {
          e.1 = Some(v);
        }
      }
      None => {
        self.unknown_total += 1;
        if GLOBAL_UNKNOWN.fetch_add(1, std::sync::atomic::Ordering::Relaxed) < 40 {
          if let Ok(mut g) = GLOBAL_FIRST.lock() {
            g.push(v.clone());
          }
        }
        if self.unknown.len() < STORE_CAP {
          self.unknown.push(v);
        }
      }
    }
  }

  pub fn harness_error(&mut self, msg: &str) {
    if self.errors.len() < 50 {
      self.errors.push(msg.to_string());
    }
  }

  /// the merged log must have counter `key` >= `min`, else the run is inconclusive
  pub fn floor(&mut self, key: &'static str, min: u64) {
    self.floors.push((key, min));
  }

  pub fn note(&mut self, s: String) {
    self.notes.push(s);
  }

  pub fn merge(&mut self, o: Log) {
    self.evals += o.evals;
    self.nontrivial += o.nontrivial;
    if self.distinct.is_empty() {
      self.distinct = o.distinct;
    } else {
      self.distinct.extend(o.distinct);
    }
    for (k, v) in o.counters {
      *self.counters.entry(k).or_insert(0) += v;
    }
    for s in o.samples.into_iter().take(3) {
      if self.samples.len() < 12 {
        self.samples.push(s);
      }
    }
    self.sample_calls += o.sample_calls;
    self.unknown_total += o.unknown_total;
    for v in o.unknown {
      if self.unknown.len() < STORE_CAP {
        self.unknown.push(v);
      }
    }
    for (i, (n, v)) in o.known_seen {
      let e = self.known_seen.entry(i).or_insert((0, None));
      e.0 += n;
      if e.1.is_none() {
        e.1 = v;
      }
    }
    self.errors.extend(o.errors);
    self.floors.extend(o.floors);
    self.notes.extend(o.notes);
  }

  pub fn distinct_nontrivial(&self) -> u64 {
    self.nontrivial + self.distinct.len() as u64
  }
}
