//! Thin adapters between oracle-side integers and library values.  Never used to *decide*
//! anything: they only build library inputs from oracle numbers and read library outputs back
//! into plain tuples (library `==` is never used by the monitors).
use crate::model::cal::{self, cal};
use tyme4rs::tyme::lunar::{LunarDay, LunarMonth};
use tyme4rs::tyme::solar::{SolarDay, SolarTime};

pub type Ymd = (i64, i64, i64);

#[inline]
pub fn ymd(d: &SolarDay) -> Ymd {
  (d.get_year() as i64, d.get_month() as i64, d.get_day() as i64)
}

/// oracle day number of a library SolarDay (None if the library produced a date that does not exist)
#[inline]
pub fn dn_of(d: &SolarDay) -> Option<i64> {
  let (y, m, dd) = ymd(d);
  if cal::exists(y, m, dd) {
    Some(cal().dn(y, m, dd))
  } else {
    None
  }
}

#[inline]
pub fn sd_of_dn(n: i64) -> SolarDay {
  let (y, m, d) = cal().date(n);
  SolarDay::from_ymd(y as isize, m as usize, d as usize)
}

#[inline]
pub fn sd(y: i64, m: i64, d: i64) -> SolarDay {
  SolarDay::from_ymd(y as isize, m as usize, d as usize)
}

pub fn fmt_ymd(t: Ymd) -> String {
  cal::fmt_date(t.0, t.1, t.2)
}

/// absolute second on the civil time line: day number * 86400 + second of day
pub fn abs_sec_of(t: &SolarTime) -> Option<i64> {
  let n = dn_of(&t.get_solar_day())?;
  let (h, mi, s) = (t.get_hour() as i64, t.get_minute() as i64, t.get_second() as i64);
  if h > 23 || mi > 59 || s > 59 {
    return None;
  }
  Some(n * 86400 + h * 3600 + mi * 60 + s)
}

pub fn st_of_abs(a: i64) -> SolarTime {
  let n = a.div_euclid(86400);
  let sod = a.rem_euclid(86400);
  let (y, m, d) = cal().date(n);
  SolarTime::from_ymd_hms(y as isize, m as usize, d as usize, (sod / 3600) as usize, ((sod % 3600) / 60) as usize, (sod % 60) as usize)
}

pub fn fmt_abs(a: i64) -> String {
  let n = a.div_euclid(86400);
  let sod = a.rem_euclid(86400);
  if cal().in_range(n) {
    format!("{}T{:02}:{:02}:{:02}", cal::fmt_dn(n), sod / 3600, (sod % 3600) / 60, sod % 60)
  } else {
    format!("dn{}T{:02}:{:02}:{:02}", n, sod / 3600, (sod % 3600) / 60, sod % 60)
  }
}

pub type Lymd = (i64, i64, i64);

#[inline]
pub fn lymd(d: &LunarDay) -> Lymd {
  (d.get_year() as i64, d.get_month() as i64, d.get_day() as i64)
}

#[inline]
pub fn lym(m: &LunarMonth) -> (i64, i64) {
  (m.get_year() as i64, m.get_month_with_leap() as i64)
}

/// zero-padded, lexicographically ordered key of a lunar month label: year 4 digits (year -1 ->
/// "-001"), month 2 digits, leap flag after the month so that a leap month sorts after its twin
pub fn fmt_lym(y: i64, m: i64) -> String {
  let ys = if y < 0 { format!("-{:03}", -y) } else { format!("{:04}", y) };
  format!("{}-{:02}{}", ys, m.abs(), if m < 0 { "L" } else { "" })
}

pub fn fmt_lymd(t: Lymd) -> String {
  format!("{}-{:02}", fmt_lym(t.0, t.1), t.2)
}

/// integer day number of a lunar month's first day (the library stores an integer-valued noon JD)
pub fn first_dn(m: &LunarMonth) -> i64 {
  m.get_first_julian_day().get_day().round() as i64
}
