#![allow(dead_code)]
//! vcheck — runtime monitors for the 20 given properties of tyme4rs.
//! usage: vcheck <Cnn> [--tier quick|thorough] [--seed N] [--replay FILE] [--root DIR]
//! exit: 0 held on everything observed (KNOWN-FINDING lines allowed), 1 violation, 2 inconclusive.
mod api;
mod history;
mod log;
mod model;
mod monitor;
mod util;

use log::{Log, KNOWN};
use std::fmt::Write as _;
use std::time::Instant;
use util::json_str;

#[derive(Clone, Copy, PartialEq, Eq, Debug)]
pub enum Tier {
  Quick,
  Thorough,
}

impl Tier {
  pub fn name(&self) -> &'static str {
    match self {
      Tier::Quick => "quick",
      Tier::Thorough => "thorough",
    }
  }
  pub fn pick<T>(&self, q: T, t: T) -> T {
    match self {
      Tier::Quick => q,
      Tier::Thorough => t,
    }
  }
}

pub struct Cfg {
  pub tier: Tier,
  pub seed: u64,
  pub root: String,
  pub exe: String,
}

pub struct Meta {
  pub rule: String,
  pub assumptions: Vec<String>,
  pub exhaustive: bool,
}

fn die_inconclusive(prop: &str, why: &str) -> ! {
  println!("INCONCLUSIVE property={} {}", prop, why);
  std::process::exit(2);
}

fn main() {
  let args: Vec<String> = std::env::args().collect();
  if args.len() < 2 {
    eprintln!("usage: vcheck <Cnn> [--tier quick|thorough] [--seed N] [--replay FILE] [--root DIR]");
    std::process::exit(2);
  }
  let prop = args[1].clone();
  if prop == "--child" {
    // helper mode used by the fresh-process monitor of C10
    monitor::c10::child_main(&args[2..]);
    return;
  }
  let mut tier = match std::env::var("VERIF_TIER").ok().as_deref() {
    Some("thorough") => Tier::Thorough,
    _ => Tier::Quick,
  };
  let mut seed: u64 = std::env::var("VERIF_SEED").ok().and_then(|s| s.trim().parse::<i64>().ok()).map(|v| v as u64).unwrap_or(1);
  let mut replay: Option<String> = None;
  let mut root = "/verif".to_string();
  let mut i = 2;
  while i < args.len() {
    match args[i].as_str() {
      "--tier" => {
        i += 1;
        tier = match args.get(i).map(|s| s.as_str()) {
          Some("quick") => Tier::Quick,
          Some("thorough") => Tier::Thorough,
          _ => die_inconclusive(&prop, "bad --tier"),
        };
      }
      "--seed" => {
        i += 1;
        seed = args.get(i).and_then(|s| s.parse::<i64>().ok()).map(|v| v as u64).unwrap_or_else(|| die_inconclusive(&prop, "bad --seed"));
      }
      "--replay" => {
        i += 1;
        replay = args.get(i).cloned();
      }
      "--root" => {
        i += 1;
        root = args.get(i).cloned().unwrap_or(root);
      }
      other => die_inconclusive(&prop, &format!("unknown argument {}", other)),
    }
    i += 1;
  }

  // replay: take tier/seed and the signatures from the file, re-run, report which ones recur
  let mut replay_sigs: Vec<String> = Vec::new();
  if let Some(f) = &replay {
    let text = std::fs::read_to_string(f).unwrap_or_else(|e| die_inconclusive(&prop, &format!("cannot read replay file: {}", e)));
    if let Some(t) = extract_str(&text, "tier") {
      tier = if t == "thorough" { Tier::Thorough } else { Tier::Quick };
    }
    if let Some(s) = extract_num(&text, "seed") {
      seed = s as u64;
    }
    replay_sigs = extract_all(&text, "sig");
  }

  let known_text = std::fs::read_to_string(format!("{}/KNOWN_FINDINGS.txt", root)).unwrap_or_default();
  match log::parse_known(&known_text) {
    Ok(k) => {
      let _ = KNOWN.set(k);
    }
    Err(e) => die_inconclusive(&prop, &e),
  }

  util::silence_panics();
  // time-budget guard: a change to the library can make a workload pathologically slow (e.g. a
  // colliding cache key makes every wrong conversion walk tens of thousands of months).  When the
  // budget (well above 20x the measured run time, below the driver's watchdog) is exhausted, the
  // violations observed so far are the verdict; with none, the run is inconclusive.
  if replay.is_none() {
    let budget: u64 = std::env::var("VERIF_BUDGET_S").ok().and_then(|s| s.parse().ok()).unwrap_or(match tier {
      Tier::Quick => 600,
      Tier::Thorough => 6600,
    });
    let (prop2, root2, tier2, seed2) = (prop.clone(), root.clone(), tier, seed);
    std::thread::spawn(move || {
      std::thread::sleep(std::time::Duration::from_secs(budget));
      let n = log::GLOBAL_UNKNOWN.load(std::sync::atomic::Ordering::Relaxed);
      if n == 0 {
        println!("INCONCLUSIVE property={} time budget of {} s exhausted with no violation observed so far", prop2, budget);
        std::process::exit(2);
      }
      let first: Vec<log::Violation> = log::GLOBAL_FIRST.lock().map(|g| g.clone()).unwrap_or_default();
      let path = format!("{}/replays/{}-{}-{}.json", root2, prop2, tier2.name(), seed2);
      let _ = std::fs::create_dir_all(format!("{}/replays", root2));
      let mut s = String::new();
      let _ = write!(s, "{{\n \"property\": {}, \"tier\": {}, \"seed\": {},\n \"total_unlisted_violations\": {},\n \"stopped_at_time_budget_s\": {},\n \"violations\": [\n", json_str(&prop2), json_str(tier2.name()), seed2 as i64, n, budget);
      for (j, v) in first.iter().enumerate() {
        let _ = write!(s, "  {{\"sig\": {}, \"op\": {}, \"input\": {}, \"observed\": {}, \"expected\": {}}}{}\n", json_str(&v.sig), json_str(&v.op), json_str(&v.input), json_str(&v.observed), json_str(&v.expected), if j + 1 < first.len() { "," } else { "" });
      }
      s.push_str(" ]\n}\n");
      let _ = std::fs::write(&path, s);
      let ev = format!(
        "{{\n \"property_id\": {}, \"tier\": {}, \"seed\": {}, \"level\": \"exploration\",\n \"coverage\": {{\"evaluations\": {}, \"distinct_nontrivial\": {}, \"rule\": \"run stopped at its time budget of {} s; only the violating events observed until then are counted here\", \"samples\": [{}]}},\n \"assumptions\": [], \"wall_s\": {}, \"violations\": {}\n}}\n",
        json_str(&prop2), json_str(tier2.name()), seed2 as i64, n, n.max(2), budget, first.first().map(|v| json_str(&format!("{} observed={} expected={}", v.sig, v.observed, v.expected))).unwrap_or_else(|| "\"none\"".into()), budget, n
      );
      let _ = std::fs::create_dir_all(format!("{}/evidence", root2));
      let _ = std::fs::write(format!("{}/evidence/{}.json", root2, prop2), ev);
      for v in first.iter().take(8) {
        println!("  violation {} op={} input={} observed={} expected={}", v.sig, v.op, v.input, v.observed, v.expected);
      }
      println!("NOTE property={} run stopped at its time budget of {} s with {} unlisted violation(s) observed", prop2, budget, n);
      println!("VIOLATION property={} replay={}", prop2, path);
      std::process::exit(1);
    });
  }
  let cfg = Cfg { tier, seed, root: root.clone(), exe: args[0].clone() };
  let t0 = Instant::now();
  let result = util::guard(|| monitor::dispatch(&prop, &cfg));
  let (log, meta) = match result {
    Ok(Some(r)) => r,
    Ok(None) => die_inconclusive(&prop, "unknown property id"),
    Err(msg) => die_inconclusive(&prop, &format!("harness panic: {}", msg)),
  };
  let wall = t0.elapsed().as_secs_f64();

  if replay.is_some() {
    let mut hit = 0;
    for v in &log.unknown {
      if replay_sigs.contains(&v.sig) {
        hit += 1;
        println!("REPRODUCED {} op={} input={} observed={} expected={}", v.sig, v.op, v.input, v.observed, v.expected);
      }
    }
    for (i, (_, v)) in &log.known_seen {
      if let Some(v) = v {
        if replay_sigs.contains(&v.sig) {
          hit += 1;
          println!("REPRODUCED(known #{}) {} observed={} expected={}", i, v.sig, v.observed, v.expected);
        }
      }
    }
    println!("REPLAY property={} tier={} seed={} recorded={} reproduced={} other_unlisted_violations={}", prop, tier.name(), seed, replay_sigs.len(), hit, log.unknown_total);
    std::process::exit(if hit > 0 || log.unknown_total > 0 { 1 } else { 0 });
  }

  // floors
  let mut inconclusive: Vec<String> = log.errors.clone();
  for (k, min) in &log.floors {
    let got = log.get(k);
    if got < *min {
      inconclusive.push(format!("observation floor not met: {} = {} < {}", k, got, min));
    }
  }
  if log.evals == 0 {
    inconclusive.push("no events observed".into());
  }

  write_evidence(&prop, &cfg, &log, &meta, wall, &inconclusive);

  println!(
    "SUMMARY property={} tier={} seed={} evaluations={} distinct_nontrivial={} unlisted_violations={} known_findings_observed={} wall_s={:.1}",
    prop,
    tier.name(),
    seed,
    log.evals,
    log.distinct_nontrivial(),
    log.unknown_total,
    log.known_seen.len(),
    wall
  );
  for (k, v) in &log.counters {
    println!("  observed {} = {}", k, v);
  }
  for n in &log.notes {
    println!("  note: {}", n);
  }
  let known = KNOWN.get().unwrap();
  for (i, (n, _)) in &log.known_seen {
    let k = &known[*i];
    println!("KNOWN-FINDING: property={} {} {} (observed {} time(s) in this run)", k.property, k.raw_key, k.what, n);
  }
  let replay_path = format!("{}/replays/{}-{}-{}.json", root, prop, tier.name(), seed);
  if log.unknown_total == 0 {
    let _ = std::fs::remove_file(&replay_path);
  }
  if log.unknown_total > 0 {
    let path = replay_path.clone();
    let _ = std::fs::create_dir_all(format!("{}/replays", root));
    let mut s = String::new();
    let _ = write!(s, "{{\n \"property\": {}, \"tier\": {}, \"seed\": {},\n \"total_unlisted_violations\": {},\n \"violations\": [\n", json_str(&prop), json_str(tier.name()), seed as i64, log.unknown_total);
    for (j, v) in log.unknown.iter().enumerate() {
      let _ = write!(
        s,
        "  {{\"sig\": {}, \"op\": {}, \"input\": {}, \"observed\": {}, \"expected\": {}}}{}\n",
        json_str(&v.sig),
        json_str(&v.op),
        json_str(&v.input),
        json_str(&v.observed),
        json_str(&v.expected),
        if j + 1 < log.unknown.len() { "," } else { "" }
      );
    }
    s.push_str(" ]\n}\n");
    let _ = std::fs::write(&path, s);
    for v in log.unknown.iter().take(12) {
      println!("  violation {} op={} input={} observed={} expected={}", v.sig, v.op, v.input, v.observed, v.expected);
    }
    println!("VIOLATION property={} replay={}", prop, path);
    std::process::exit(1);
  }
  if !inconclusive.is_empty() {
    for m in &inconclusive {
      println!("INCONCLUSIVE property={} {}", prop, m);
    }
    std::process::exit(2);
  }
  std::process::exit(0);
}

fn write_evidence(prop: &str, cfg: &Cfg, log: &Log, meta: &Meta, wall: f64, inconclusive: &[String]) {
  let mut s = String::new();
  let _ = write!(s, "{{\n \"property_id\": {},\n \"tier\": {},\n \"seed\": {},\n \"level\": \"exploration\",\n", json_str(prop), json_str(cfg.tier.name()), cfg.seed as i64);
  s.push_str(" \"coverage\": {\n");
  let _ = write!(s, "  \"evaluations\": {},\n  \"distinct_nontrivial\": {},\n  \"rule\": {},\n", log.evals, log.distinct_nontrivial(), json_str(&meta.rule));
  if meta.exhaustive {
    s.push_str("  \"exhaustive\": true,\n");
  }
  s.push_str("  \"samples\": [");
  for (i, x) in log.samples.iter().enumerate() {
    if i > 0 {
      s.push_str(", ");
    }
    s.push_str(&json_str(x));
  }
  s.push_str("],\n  \"observed\": {");
  for (i, (k, v)) in log.counters.iter().enumerate() {
    if i > 0 {
      s.push_str(", ");
    }
    let _ = write!(s, "{}: {}", json_str(k), v);
  }
  s.push_str("},\n  \"known_findings_observed\": [");
  let known = KNOWN.get().unwrap();
  for (j, (i, (n, v))) in log.known_seen.iter().enumerate() {
    if j > 0 {
      s.push_str(", ");
    }
    let ex = v.as_ref().map(|v| format!("{} observed={} expected={}", v.sig, v.observed, v.expected)).unwrap_or_default();
    let _ = write!(s, "{{\"key\": {}, \"events\": {}, \"example\": {}}}", json_str(&known[*i].raw_key), n, json_str(&ex));
  }
  s.push_str("],\n  \"notes\": [");
  for (i, n) in log.notes.iter().enumerate() {
    if i > 0 {
      s.push_str(", ");
    }
    s.push_str(&json_str(n));
  }
  s.push_str("],\n  \"inconclusive_reasons\": [");
  for (i, n) in inconclusive.iter().enumerate() {
    if i > 0 {
      s.push_str(", ");
    }
    s.push_str(&json_str(n));
  }
  s.push_str("]\n },\n \"assumptions\": [");
  for (i, a) in meta.assumptions.iter().enumerate() {
    if i > 0 {
      s.push_str(", ");
    }
    s.push_str(&json_str(a));
  }
  let _ = write!(s, "],\n \"wall_s\": {:.3},\n \"violations\": {}\n}}\n", wall, log.unknown_total);
  let dir = format!("{}/evidence", cfg.root);
  let _ = std::fs::create_dir_all(&dir);
  let path = format!("{}/{}.json", dir, prop);
  let tmp = format!("{}.tmp", path);
  if std::fs::write(&tmp, s).is_ok() {
    let _ = std::fs::rename(&tmp, &path);
  }
}

fn extract_str(text: &str, key: &str) -> Option<String> {
  extract_all(text, key).into_iter().next()
}

fn extract_num(text: &str, key: &str) -> Option<i64> {
  let pat = format!("\"{}\":", key);
  let i = text.find(&pat)? + pat.len();
  let rest = text[i..].trim_start();
  let end = rest.find(|c: char| !(c.is_ascii_digit() || c == '-')).unwrap_or(rest.len());
  rest[..end].parse().ok()
}

/// all string values of `"key": "..."` (handles the escapes json_str produces)
fn extract_all(text: &str, key: &str) -> Vec<String> {
  let pat = format!("\"{}\":", key);
  let mut out = Vec::new();
  let mut pos = 0;
  while let Some(i) = text[pos..].find(&pat) {
    let start = pos + i + pat.len();
    let rest = &text[start..];
    let rest_trim = rest.trim_start();
    let off = rest.len() - rest_trim.len();
    if !rest_trim.starts_with('"') {
      pos = start;
      continue;
    }
    let mut val = String::new();
    let mut chars = rest_trim[1..].char_indices();
    let mut endi = 0;
    while let Some((ci, c)) = chars.next() {
      if c == '\\' {
        if let Some((_, n)) = chars.next() {
          match n {
            'n' => val.push('\n'),
            't' => val.push('\t'),
            'r' => val.push('\r'),
            other => val.push(other),
          }
        }
      } else if c == '"' {
        endi = ci;
        break;
      } else {
        val.push(c);
      }
    }
    out.push(val);
    pos = start + off + 1 + endi + 1;
  }
  out
}
